#!/bin/bash
# lock discipline probe: expect SUCCESSFUL on the pinned tsrm.c, FAILED (NULL deref of ->count) on the mutant
set -u; H=$(cd "$(dirname "$0")" && pwd); T=$(mktemp -d); trap 'rm -rf "$T"' EXIT
python3 - "$T" <<'PY'
import sys
s=open('/repo/src/tsrm.c').read(); i=s.index('int   snoopy_tsrm_get_threadCount ()'); b=s[i:]
b=b.replace('    pthread_mutex_lock(&snoopy_tsrm_threadRepo_mutex);\n','',1).replace('    pthread_mutex_unlock(&snoopy_tsrm_threadRepo_mutex);\n','',1)
open(sys.argv[1]+'/tsrm_nolock.c','w').write(s[:i]+b)
PY
for src in /repo/src/tsrm.c $T/tsrm_nolock.c; do echo "== $src"
  goto-cc -I/repo -I/repo/src -DHAVE_CONFIG_H --function harness $H/cap_harness.c $src /repo/src/util/list.c -o $T/c.gb 2>/dev/null
  cbmc $T/c.gb --unwind 4 --unwinding-assertions --no-malloc-may-fail --pointer-check --bounds-check --memory-leak-check 2>&1 | grep -E 'FAILURE|VERIFICATION'; done
