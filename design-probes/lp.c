#include <stddef.h>
size_t cnt(const char *s, size_t n)
__CPROVER_requires(n>0 && n<=100000 && __CPROVER_is_fresh(s,n))
__CPROVER_ensures(__CPROVER_return_value<=n)
__CPROVER_assigns()
{
  size_t c=0;
  for(size_t i=0;i<n;i++){ if(s[i]==',') c++; }
  return c;
}
void harness(void){ const char*s; size_t n; cnt(s,n);}
