#!/bin/bash
set -u; H=$(cd "$(dirname "$0")" && pwd); T=$(mktemp -d); trap 'rm -rf "$T"' EXIT
cd $H && goto-cc --function harness lp.c -o $T/lp.gb && goto-instrument --dfcc harness --enforce-contract cnt --apply-loop-contracts --loop-contracts-file lp.json $T/lp.gb $T/lp2.gb >/dev/null 2>&1
cbmc $T/lp2.gb --bounds-check --pointer-check 2>&1 | grep -E 'VERIF|FAIL|loop_invariant'
