#include "c01_contracts.h"
#include <errno.h>
int verif_phase, verif_lib_state;
int nondet_int(void);
static int real_calls; static const char *r_f; static char *const *r_a; static char *const *r_e; static int r_ret, r_errno, r_phase;
int verif_real_execve(const char *f, char *const a[], char *const e[]){ real_calls++; r_f=f; r_a=a; r_e=e; r_phase=verif_phase; r_ret=nondet_int(); r_errno=nondet_int(); errno=r_errno; return r_ret; }
int verif_real_execv(const char *f, char *const a[]){ real_calls++; r_f=f; r_a=a; r_e=0; r_phase=verif_phase; r_ret=nondet_int(); r_errno=nondet_int(); errno=r_errno; return r_ret; }
void *dlsym(void *h, const char *name){ if(name[4]=='v' && name[5]=='e') return (void*)verif_real_execve; return (void*)verif_real_execv; }
int execve (const char *filename, char *const argv[], char *const envp[]);
int execv (const char *filename, char *const argv[]);
void harness_execve(void){
  const char *f; char *const *a; char *const *e;   /* any pointer values; never dereferenced at this level */
  verif_phase=0; real_calls=0;
  int r = execve(f,a,e);
  __CPROVER_assert(real_calls==1, "real exec called exactly once");
  __CPROVER_assert(r_phase==3, "real exec entered only after init, log and cleanup finished");
  __CPROVER_assert(r_f==f && r_a==a && r_e==e, "path, argv, envp handed over pointer-identical");
  __CPROVER_assert(r==r_ret && errno==r_errno, "return value and errno delivered unchanged");
}
void harness_execv(void){
  const char *f; char *const *a;
  verif_phase=0; real_calls=0;
  int r = execv(f,a);
  __CPROVER_assert(real_calls==1, "real exec called exactly once");
  __CPROVER_assert(r_phase==3, "real exec entered only after init, log and cleanup finished");
  __CPROVER_assert(r_f==f && r_a==a, "path, argv handed over pointer-identical");
  __CPROVER_assert(r==r_ret && errno==r_errno, "return value and errno delivered unchanged");
}
