#pragma once
/* system headers first, then turn variadic snprintf into fixed-arity model calls
   (DFCC mis-instruments variadic callees in cbmc 6.11) */
#include <stdio.h>
#include <stdlib.h>
#include <string.h>
#include <unistd.h>
typedef struct { int kind; const char *s; long long i; } verif_arg_t;
static inline verif_arg_t verif_arg_s(const char *s){ verif_arg_t a; a.kind=1; a.s=s; a.i=0; return a; }
static inline verif_arg_t verif_arg_i(long long i){ verif_arg_t a; a.kind=2; a.s=0; a.i=i; return a; }
#define VERIF_ARG(x) _Generic((x), char*: verif_arg_s, const char*: verif_arg_s, default: verif_arg_i)(x)
int verif_snprintf0(char *b, size_t n, const char *f);
int verif_snprintf1(char *b, size_t n, const char *f, verif_arg_t a1);
int verif_snprintf2(char *b, size_t n, const char *f, verif_arg_t a1, verif_arg_t a2);
int verif_snprintf3(char *b, size_t n, const char *f, verif_arg_t a1, verif_arg_t a2, verif_arg_t a3);
#define VERIF_SEL(_0,_1,_2,_3,NAME,...) NAME
#define VERIF_SN0(b,n,f) verif_snprintf0(b,n,f)
#define VERIF_SN1(b,n,f,a) verif_snprintf1(b,n,f,VERIF_ARG(a))
#define VERIF_SN2(b,n,f,a,c) verif_snprintf2(b,n,f,VERIF_ARG(a),VERIF_ARG(c))
#define VERIF_SN3(b,n,f,a,c,d) verif_snprintf3(b,n,f,VERIF_ARG(a),VERIF_ARG(c),VERIF_ARG(d))
#define snprintf(b,n,...) VERIF_SEL(__VA_ARGS__,VERIF_SN3,VERIF_SN2,VERIF_SN1,VERIF_SN0)(b,n,__VA_ARGS__)
