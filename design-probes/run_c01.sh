#!/bin/bash
# C01 probe: real interposers, callees by contract. Expect SUCCESSFUL twice, then 3 mutants FAILED.
set -u; H=$(cd "$(dirname "$0")" && pwd); T=$(mktemp -d); trap 'rm -rf "$T"' EXIT
W=/repo/src/entrypoint/execve-wrapper.c
REPL="--replace-call-with-contract snoopy_entrypoint_execve_wrapper_init --replace-call-with-contract snoopy_action_log_syscall_exec --replace-call-with-contract snoopy_entrypoint_execve_wrapper_exit"
run(){ # $1 harness, $2 wrapper source
  goto-cc -I/repo -I/repo/src -I/repo/src/entrypoint -DHAVE_CONFIG_H --function $1 -include $H/c01_contracts.h $H/c01_harness.c $2 -o $T/a.gb 2>/dev/null || { echo "compile failed"; return; }
  goto-instrument --dfcc $1 $REPL $T/a.gb $T/b.gb >/dev/null 2>&1
  cbmc $T/b.gb --bounds-check --pointer-check 2>&1 | grep -E 'FAILURE|VERIFICATION'; }
echo "== pinned execve"; run harness_execve $W
echo "== pinned execv";  run harness_execv  $W
python3 - "$W" "$T" <<'PY'
import sys
s=open(sys.argv[1]).read(); t=sys.argv[2]
open(t+'/m1.c','w').write(s.replace("    snoopy_entrypoint_execve_wrapper_exit();\n\n    return (*func) (filename, argv, envp);","    int r = (*func) (filename, argv, envp);\n    snoopy_entrypoint_execve_wrapper_exit();\n    return r;"))
open(t+'/m2.c','w').write(s.replace("    snoopy_action_log_syscall_exec();\n    snoopy_entrypoint_execve_wrapper_exit();\n\n    return (*func) (filename, argv, envp);","    snoopy_action_log_syscall_exec();\n    snoopy_action_log_syscall_exec();\n    snoopy_entrypoint_execve_wrapper_exit();\n\n    return (*func) (filename, argv, envp);"))
open(t+'/m3.c','w').write(s.replace("return (*func) (filename, argv, envp);","return (*func) (filename, argv, (char*const*)0);"))
PY
for m in m1 m2 m3; do echo "== mutant $m (cleanup after exec / log twice / NULL envp)"; run harness_execve $T/$m.c; done
