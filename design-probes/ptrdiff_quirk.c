#include <stdlib.h>
int nondet_int(void);
int main(void){ char *a = malloc(10); int k = nondet_int(); __CPROVER_assume(k >= 2 && k <= 5); char *t = a; char *c = a + k; long d = (c - 1) - (t + 2); int len = (int)(d + 2); __CPROVER_assert(len >= 1, "len"); return 0; }
