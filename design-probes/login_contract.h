#pragma once
#include <stddef.h>
int snoopy_datasource_login (char * const resultBuf, size_t resultBufSize, char const * const arg)
__CPROVER_requires(resultBufSize >= 257 && resultBufSize <= 1048577 && __CPROVER_is_fresh(resultBuf, resultBufSize))
__CPROVER_requires(__CPROVER_is_fresh(arg, 1) && arg[0]==0)
__CPROVER_assigns(__CPROVER_object_upto(resultBuf, resultBufSize))
__CPROVER_ensures(__CPROVER_return_value >= 0);
