#include <stddef.h>
#include <stdlib.h>
size_t nondet_size_t(void);
extern const void *verif_exact[4];
int snoopy_util_string_append (char *destString, size_t destStringBufSize, const char *appendThis);
void harness(void){
  size_t bufSize = nondet_size_t(); __CPROVER_assume(bufSize>=1 && bufSize<=1048577);
  char *dest = malloc(bufSize);
  size_t dl = nondet_size_t(); __CPROVER_assume(dl<bufSize); dest[dl]=0;      /* dest holds a string */
  size_t an = nondet_size_t(); __CPROVER_assume(an>=1 && an<=2000000);
  char *app = malloc(an); verif_exact[0]=app;                                 /* a string of length an-1 */
  int r = snoopy_util_string_append(dest, bufSize, app);
  __CPROVER_assert(r==-1 || r>=0, "returns appended length or error");
}
