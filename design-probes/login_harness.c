#include "login_contract.h"
void harness(void){ char *b; size_t n; const char *a; snoopy_datasource_login(b,n,a); }
