#!/bin/bash
set -u; H=$(cd "$(dirname "$0")" && pwd); T=$(mktemp -d); trap 'rm -rf "$T"' EXIT
goto-cc -I/repo -I/repo/src -I/repo/src/datasource -DHAVE_CONFIG_H --function harness -include $H/prelude.h -include $H/login_contract.h $H/login_harness.c $H/packS.c /repo/src/datasource/login.c -o $T/l.gb 2>/dev/null
goto-instrument --dfcc harness --enforce-contract snoopy_datasource_login $T/l.gb $T/l2.gb >/dev/null 2>&1
cbmc $T/l2.gb --bounds-check --pointer-check 2>&1 | grep -E 'FAILURE|VERIFICATION'
