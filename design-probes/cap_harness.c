/* capability-pointer lock discipline: the repository pointer is valid only while the mutex is held */
#include <pthread.h>
#include <stdlib.h>
#include "tsrm.h"
#include "util/list-snoopy.h"
extern list_t snoopy_tsrm_threadRepo_data; extern list_t *snoopy_tsrm_threadRepo; extern pthread_mutex_t snoopy_tsrm_threadRepo_mutex;
int verif_depth; int verif_once_done;
pthread_t verif_self;
pthread_t pthread_self(void){ return verif_self; }
int pthread_equal(pthread_t a, pthread_t b){ return a==b; }
int pthread_once(pthread_once_t *c, void (*f)(void)){ if(!verif_once_done){ verif_once_done=1; f(); } return 0; }
int pthread_mutexattr_init(pthread_mutexattr_t *a){ return 0; }
int pthread_mutexattr_settype(pthread_mutexattr_t *a, int t){ __CPROVER_assert(t==PTHREAD_MUTEX_RECURSIVE,"repository mutex is recursive"); return 0; }
int pthread_mutex_init(pthread_mutex_t *m, const pthread_mutexattr_t *a){ return 0; }
int pthread_mutex_lock(pthread_mutex_t *m){ __CPROVER_assert(m==&snoopy_tsrm_threadRepo_mutex,"only the repository mutex"); if(verif_depth++==0) snoopy_tsrm_threadRepo=&snoopy_tsrm_threadRepo_data; return 0; }
int pthread_mutex_unlock(pthread_mutex_t *m){ __CPROVER_assert(verif_depth>0,"unlock of a held mutex"); if(--verif_depth==0) snoopy_tsrm_threadRepo=0; return 0; }
void snoopy_error_handler(char const * const m){}
void snoopy_configuration_setUninitialized(snoopy_configuration_t *c){ c->initialized=0; }
void snoopy_inputdatastorage_setUninitialized(snoopy_inputdatastorage_t *c){ c->initialized=0; }
void harness(void){
  snoopy_tsrm_threadRepo = 0;
  snoopy_tsrm_ctor();
  __CPROVER_assert(verif_depth==0,"all locks released after ctor");
  __CPROVER_assert(snoopy_tsrm_get_threadCount()==1,"exactly one registered thread during a lone call");
  snoopy_configuration_t *c = snoopy_tsrm_get_configuration();
  __CPROVER_assert(c!=0,"own configuration record exists");
  snoopy_tsrm_dtor();
  __CPROVER_assert(verif_depth==0,"all locks released after dtor");
  __CPROVER_assert(snoopy_tsrm_get_threadCount()==0,"no per-thread state left");
}
