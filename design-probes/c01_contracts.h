#pragma once
#include <stddef.h>
extern int verif_phase;          /* 0 idle, 1 init done, 2 logged, 3 cleaned up */
extern int verif_lib_state;      /* stands for all library-owned state */
void snoopy_entrypoint_execve_wrapper_init (const char *filename, char *const argv[], char *const envp[])
__CPROVER_requires(verif_phase==0)
__CPROVER_assigns(verif_phase, verif_lib_state)
__CPROVER_ensures(verif_phase==1);
void snoopy_action_log_syscall_exec (void)
__CPROVER_requires(verif_phase==1)
__CPROVER_assigns(verif_phase, verif_lib_state)
__CPROVER_ensures(verif_phase==2);
void snoopy_entrypoint_execve_wrapper_exit (void)
__CPROVER_requires(verif_phase==2)
__CPROVER_assigns(verif_phase, verif_lib_state)
__CPROVER_ensures(verif_phase==3);
