#!/usr/bin/env python3
"""C13 probe: lift the #ifdef-guarded initialisers of datasourceregistry.c to runtime guards.

Prints a C file in which every enable switch is a nondeterministic boolean, the two
tables are built by `if (en_G) arr[n++] = entry;`, every implementation is a stub that
records its identity, and one harness per name calls the real callByName.  Measured:
all names in one harness > 20 min; one name per harness 45-110 s for all 2^37 configs.
Usage: lift_registry.py [name]  > lifted.c   (then compile with the lookup functions of
the real datasourceregistry.c minus the two initialisers, and genericregistry.c)."""
import re, sys
src = open('/repo/src/datasourceregistry.c').read()
def arr(rx):
    return re.search(rx + r'\s*=\s*\{(.*?)\n\};', src, re.S).group(1)
def lift(body):
    out, stack = [], []
    for line in body.split('\n'):
        s = line.strip()
        if s.startswith('#ifdef'): stack.append(s.split()[1]); continue
        if s.startswith('#endif'): stack.pop(); continue
        if not s or s.startswith('/*') or s.startswith('//'): continue
        out.append((tuple(stack), s.rstrip(',')))
    assert not stack, "unbalanced guards"
    return out
names = lift(arr(r'char\*\s*snoopy_datasourceregistry_names\[\]'))
ptrs  = lift(arr(r'int \(\*snoopy_datasourceregistry_ptrs \[\]\)[^=]*'))
assert names[-1][1] == '""' and len(names) == len(ptrs) + 1, "table shape changed"
guards = sorted({g for gs, _ in names + ptrs for g in gs})
fns = [e for _, e in ptrs]
only = sys.argv[1] if len(sys.argv) > 1 else None
print('#include <stddef.h>\n_Bool nondet_bool(void);\nint verif_called;')
for g in guards: print('_Bool en_%s;' % g)
for i, f in enumerate(fns): print('int %s(char*const b,size_t n,char const*const a){verif_called=%d;return 0;}' % (f, i + 1))
print('char* snoopy_datasourceregistry_names[%d];' % len(names))
print('int (*snoopy_datasourceregistry_ptrs[%d])(char*const,size_t,char const*const);' % len(ptrs))
print('void verif_build(void){ int n=0;')
for g in guards: print(' en_%s=nondet_bool();' % g)
cond = lambda gs: ' && '.join('en_' + g for g in gs) or '1'
for gs, e in names: print(' if(%s) snoopy_datasourceregistry_names[n++]=%s;' % (cond(gs), e))
print(' n=0;')
for gs, e in ptrs: print(' if(%s) snoopy_datasourceregistry_ptrs[n++]=%s;' % (cond(gs), e))
print('}\nint snoopy_datasourceregistry_callByName(char const*const,char*const,size_t,char const*const);')
print('void harness(void){ verif_build(); char buf[4]; int r;')
for gs, e in names:
    nm = e.strip('"')
    if not nm or (only and nm != only): continue
    idx = fns.index('snoopy_datasource_' + nm) + 1
    print(' verif_called=0; r=snoopy_datasourceregistry_callByName(%s,buf,4,""); __CPROVER_assert((%s)?(verif_called==%d):(verif_called==0&&r==-1),"binding %s");' % (e, cond(gs), idx, nm))
print('}')
