/* pack S prototype: loop-free, quantifier-free size-level models */
#include "prelude.h"
int nondet_int(void); size_t nondet_size_t(void);
const void *verif_exact[4];   /* objects whose string fills them exactly (read-only inputs) */
static _Bool verif_is_exact(const void*p){ return (verif_exact[0] && __CPROVER_same_object(p,verif_exact[0])) || (verif_exact[1] && __CPROVER_same_object(p,verif_exact[1])) || (verif_exact[2] && __CPROVER_same_object(p,verif_exact[2])) || (verif_exact[3] && __CPROVER_same_object(p,verif_exact[3])); }
#define REM(p) (__CPROVER_OBJECT_SIZE(p) - __CPROVER_POINTER_OFFSET(p))
size_t strlen(const char *s){
  __CPROVER_assert(__CPROVER_r_ok(s,1),"strlen: argument readable");
  if(s[0]==0) return 0;
  if(verif_is_exact(s)) { __CPROVER_assume(s[REM(s)-1]==0); return REM(s)-1; }
  size_t k=nondet_size_t(); __CPROVER_assume(k<REM(s)); __CPROVER_assume(s[k]==0); return k; }
char *strcat(char *d, const char *s){ size_t dl=strlen(d), sl=strlen(s); __CPROVER_assert(__CPROVER_w_ok(d+dl,sl+1),"strcat: destination has room for source and NUL"); __CPROVER_havoc_slice(d+dl,sl+1); d[dl+sl]=0; return d; }
char *strcpy(char *d, const char *s){ size_t sl=strlen(s); __CPROVER_assert(__CPROVER_w_ok(d,sl+1),"strcpy: destination has room"); __CPROVER_havoc_slice(d,sl+1); d[sl]=0; return d; }
char *strncpy(char *d, const char *s, size_t n){ __CPROVER_assert(n==0||__CPROVER_w_ok(d,n),"strncpy: n does not exceed the destination"); if(n>0) __CPROVER_havoc_slice(d,n); return d; }
char *strstr(const char *h, const char *n){
  size_t hl=strlen(h), nl=strlen(n);
  if(nl>hl || nondet_int()) return 0;
  size_t k=nondet_size_t(); __CPROVER_assume(k+nl<=hl);
  __CPROVER_assume(nl==0 || h[k]==n[0]);
  return (char*)h+k; }
int getlogin_r(char *buf, size_t n){ __CPROVER_assert(__CPROVER_w_ok(buf,n),"getlogin_r: buffer"); if(nondet_int()){ size_t k=nondet_size_t(); __CPROVER_assume(k<n); __CPROVER_havoc_slice(buf,n); buf[k]=0; return 0;} return 34; }
char *getenv(const char *name){ if(nondet_int()) return 0; size_t n=nondet_size_t(); __CPROVER_assume(n>=1&&n<=300); char *v=__CPROVER_allocate(n,0); v[n-1]=0; return v; }
static int sn_common(char *buf, size_t n){ __CPROVER_assert(n==0 || __CPROVER_w_ok(buf,n),"snprintf: size argument does not exceed the destination"); if(n>0){ __CPROVER_havoc_slice(buf,n); size_t k=nondet_size_t(); __CPROVER_assume(k<n); buf[k]=0;} int r=nondet_int(); __CPROVER_assume(r>=0); return r; }
int verif_snprintf0(char *b, size_t n, const char *f){ return sn_common(b,n);}
int verif_snprintf1(char *b, size_t n, const char *f, verif_arg_t a1){ return sn_common(b,n);}
int verif_snprintf2(char *b, size_t n, const char *f, verif_arg_t a1, verif_arg_t a2){ return sn_common(b,n);}
int verif_snprintf3(char *b, size_t n, const char *f, verif_arg_t a1, verif_arg_t a2, verif_arg_t a3){ return sn_common(b,n);}
