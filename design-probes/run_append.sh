#!/bin/bash
# size-level check of the real snoopy_util_string_append for all sizes up to 1 MiB
set -u; H=$(cd "$(dirname "$0")" && pwd); T=$(mktemp -d); trap 'rm -rf "$T"' EXIT
sed 's/destStringSizeRemaining < appendThisSize/destStringSizeRemaining <= appendThisSize/' /repo/src/util/string.c > $T/string_le.c
for src in /repo/src/util/string.c $T/string_le.c; do echo "== $src"
  goto-cc -I/repo -I/repo/src -I/repo/src/util -DHAVE_CONFIG_H --function harness -include $H/prelude.h $H/append_harness.c $H/packS.c $src -o $T/a.gb 2>/dev/null
  cbmc $T/a.gb --bounds-check --pointer-check --no-malloc-may-fail 2>&1 | grep -E 'FAILURE|VERIFICATION'; done
