"""helpers for native replayers: real code + real glibc + ASan/UBSan. exit 1 = reproduced, 0 = not reproduced, 2 = error"""
import json, os, re, subprocess, sys, tempfile, shutil
def num(v, default=None):
    if v is None: return default
    m = re.match(r"^-?\d+", str(v))
    return int(m.group(0)) if m else default
def load(path):
    d = json.load(open(path)); return d, d.get("inputs_from_counterexample", {})
def build_and_run(repo, csrc, sources, args=(), extra_flags=(), timeout=60, env=None):
    tmp = tempfile.mkdtemp(prefix="verif_replay_")
    try:
        open(os.path.join(tmp, "r.c"), "w").write(csrc)
        cmd = ["gcc", "-g", "-O0", "-fsanitize=address,undefined", "-fno-sanitize-recover=undefined", "-DHAVE_CONFIG_H", "-I" + repo, "-I" + repo + "/src",
               os.path.join(tmp, "r.c")] + [os.path.join(repo, s) for s in sources] + list(extra_flags) + ["-o", os.path.join(tmp, "r")]
        p = subprocess.run(cmd, stdout=subprocess.PIPE, stderr=subprocess.STDOUT)
        if p.returncode != 0:
            print("replay build failed:\n" + p.stdout.decode()[-3000:]); return 2
        e = dict(os.environ); e["ASAN_OPTIONS"] = "detect_leaks=0:abort_on_error=0"; e.update(env or {})
        try:
            p = subprocess.run([os.path.join(tmp, "r")] + [str(a) for a in args], stdout=subprocess.PIPE, stderr=subprocess.STDOUT, timeout=timeout, env=e)
        except subprocess.TimeoutExpired:
            print("native run: TIMEOUT (hang)"); return 1
        out = p.stdout.decode(errors="replace")
        print("native command: %s %s\nexit status %d\n%s" % ("r", " ".join(str(a) for a in args), p.returncode, out[-3500:]))
        return 1 if p.returncode != 0 else 0
    finally:
        shutil.rmtree(tmp, ignore_errors=True)
