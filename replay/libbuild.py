"""build a native driver against ALL real library sources (thread-safe or not), ASan+UBSan+LSan"""
import glob, os, subprocess, tempfile, shutil
def build(repo, driver_src, tmp, nothreads=False, extra=()):
    cfgdir = repo
    srcs = [f for f in glob.glob(repo + "/src/*.c") + glob.glob(repo + "/src/*/*.c") if "/cli/" not in f and "/entrypoint/" not in f] + [repo + "/lib/inih/src/ini.c"]
    if nothreads:
        txt = open(repo + "/config.h").read().replace("#define SNOOPY_CONF_THREAD_SAFETY_ENABLED 1", "/* no thread safety */").replace("#define SNOOPY_CONF_DATASOURCE_ENABLED_snoopy_threads 1", "/* no snoopy_threads */")
        open(tmp + "/config.h", "w").write(txt); cfgdir = tmp
        srcs = [f for f in srcs if not f.endswith("tsrm.c") and not f.endswith("snoopy_threads.c")]
    open(tmp + "/drv.c", "w").write(driver_src)
    cmd = ["gcc", "-g", "-O0", "-fsanitize=address,undefined", "-fno-sanitize-recover=undefined", "-DHAVE_CONFIG_H", "-I" + cfgdir, "-I" + repo + "/src", "-I" + repo, tmp + "/drv.c"] + srcs + list(extra) + ["-o", tmp + "/drv", "-lpthread"]
    p = subprocess.run(cmd, stdout=subprocess.PIPE, stderr=subprocess.STDOUT)
    return p.returncode, p.stdout.decode(errors="replace")
def run(tmp, args=(), env=None, timeout=60):
    e = dict(os.environ); e["ASAN_OPTIONS"] = "detect_leaks=1"; e["UBSAN_OPTIONS"] = "print_stacktrace=1"; e.update(env or {})
    try:
        p = subprocess.run([tmp + "/drv"] + [str(a) for a in args], stdout=subprocess.PIPE, stderr=subprocess.STDOUT, env=e, timeout=timeout)
        return p.returncode, p.stdout.decode(errors="replace")
    except subprocess.TimeoutExpired:
        return 124, "TIMEOUT"
def build_preload(repo, tmp, test_env_ini=True):
    """LD_PRELOAD-able library from the CURRENT working tree: all library sources + the exec entrypoint
    (test_env_ini: the test-suite's wrapper that reads the ini path from $SNOOPY_INI)"""
    srcs = [f for f in glob.glob(repo + "/src/*.c") + glob.glob(repo + "/src/*/*.c") if "/cli/" not in f and "/entrypoint/" not in f] + [repo + "/lib/inih/src/ini.c"]
    srcs.append(repo + ("/src/entrypoint/execve-wrapper-test-configfile-env.c" if test_env_ini else "/src/entrypoint/execve-wrapper.c"))
    so = tmp + "/libwrap.so"
    cmd = ["gcc", "-g", "-O0", "-shared", "-fPIC", "-DHAVE_CONFIG_H", "-I" + repo, "-I" + repo + "/src"] + srcs + ["-o", so, "-ldl", "-lpthread"]
    p = subprocess.run(cmd, stdout=subprocess.PIPE, stderr=subprocess.STDOUT)
    return p.returncode, p.stdout.decode(errors="replace"), so
