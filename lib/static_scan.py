"""supporting static fact (DESIGN C09/C17): static-lifetime, non-constant objects defined in the given real translation units,
read from the goto symbol table (goto-cc + goto-instrument --show-symbol-table).  DFCC cannot provide this: it silently adds
function-local statics to the write set."""
import json, os, subprocess, tempfile, shutil, re
def scan(repo, sources, incs, allow):
    tmp = tempfile.mkdtemp(prefix="verif_scan_")
    found = []; ok = True; err = ""
    try:
        for src in sources:
            gb = os.path.join(tmp, "x.gb")
            p = subprocess.run(["goto-cc", "-DHAVE_CONFIG_H"] + incs + ["-c", os.path.join(repo, src), "-o", gb], stdout=subprocess.PIPE, stderr=subprocess.STDOUT)
            if p.returncode: return None, "goto-cc failed on %s: %s" % (src, p.stdout.decode()[-500:])
            p = subprocess.run(["goto-instrument", "--show-symbol-table", "--json-ui", gb], stdout=subprocess.PIPE, stderr=subprocess.DEVNULL)
            for m in json.loads(p.stdout.decode()):
                for name, s in (m.get("symbolTable") or {}).items():
                    if not s.get("isStaticLifetime") or s.get("isType") or s.get("isExtern"): continue
                    t = s.get("type", {})
                    if t.get("id") == "code" or name.startswith("__CPROVER") or name.startswith("__PRETTY_FUNCTION__") or "::__func__" in name or "::__FUNCTION__" in name: continue
                    if s.get("isThreadLocal"): continue
                    loc = s.get("location", {}) or {}
                    f = loc.get("file", "") or ""
                    if not f.endswith(src.split("/")[-1]): continue      # defined in this TU's own file, not in a header of libc
                    const = "#constant" in (t.get("namedSub") or {})
                    if t.get("id") == "array": const = const or "#constant" in (((t.get("sub") or [{}])[0]).get("namedSub") or {})
                    if const: continue
                    line = loc.get("line", "?")
                    allowed = any(re.fullmatch(a, name) for a in allow)
                    found.append({"symbol": name, "file": src, "line": line, "allowed": allowed})
        return found, ""
    finally:
        shutil.rmtree(tmp, ignore_errors=True)
