#!/usr/bin/env python3
"""Runner for the contract-based checks (DESIGN.md section 2.3 / 5).

check <ID> [--tier quick|thorough] [--only RUN] [--keep] [--jobs N]

A property's runs are listed in /verif/obligations/<ID>.json.  Every run compiles the REAL
translation units from /repo's current working tree with goto-cc, optionally instruments
them with goto-instrument --dfcc (function contracts, loop contracts), and has cbmc discharge
the generated obligations.  Exit 0: held; exit 1 + "VIOLATION property=<id> replay=<path>";
exit 2: tool error (never a violation).
"""
import json, os, re, shutil, subprocess, sys, tempfile, time, glob, hashlib
sys.path.insert(0, os.path.dirname(os.path.abspath(__file__)))
from concurrent.futures import ThreadPoolExecutor

VERIF = os.path.dirname(os.path.dirname(os.path.abspath(__file__)))
REPO = os.environ.get("VERIF_REPO", "/repo")
os.environ["VERIF_REPO"] = REPO      # generators and replayers started from here see the same tree
DEFAULT_CHECKS = ["--bounds-check", "--pointer-check", "--pointer-overflow-check", "--signed-overflow-check",
                  "--conversion-check", "--div-by-zero-check", "--undefined-shift-check", "--pointer-primitive-check"]
AUX_RE = re.compile(r"loop_invariant|loop_assigns|loop_decreases|loop_step_unwinding|loop invariant|decreases clause|assigns clause.*loop", re.I)
INTERNAL_FN_RE = re.compile(r"^__CPROVER_contracts_")
MEM_LIMIT_KB = 12 * 1024 * 1024


def sh(cmd, timeout, cwd=None, env=None, limit=True):
    t0 = time.time()
    try:
        p = subprocess.run((["bash", "-c", "ulimit -v %d; exec \"$@\"" % MEM_LIMIT_KB, "x"] if limit else []) + cmd, cwd=cwd, env=env,
                           stdout=subprocess.PIPE, stderr=subprocess.PIPE, timeout=timeout)
        return p.returncode, p.stdout.decode(errors="replace"), p.stderr.decode(errors="replace"), time.time() - t0
    except subprocess.TimeoutExpired as e:
        return -9, (e.stdout or b"").decode(errors="replace"), "TIMEOUT after %ss" % timeout, time.time() - t0


def config_h_dir(tmp):
    """directory holding config.h: /repo if present, else the pinned copy (said so in evidence)"""
    if os.path.exists(os.path.join(REPO, "config.h")):
        return REPO, "repo"
    d = os.path.join(tmp, "cfg"); os.makedirs(d, exist_ok=True)
    shutil.copy(os.path.join(VERIF, "support/config.h.pinned"), os.path.join(d, "config.h"))
    return d, "pinned copy (config.h absent from /repo)"


def derive_config(tmp, variant):
    """generated copies of config.h for alternative builds (outside /repo)"""
    src_dir, _ = config_h_dir(tmp)
    txt = open(os.path.join(src_dir, "config.h")).read()
    d = os.path.join(tmp, "cfg_" + variant); os.makedirs(d, exist_ok=True)
    if variant == "nothreads":
        txt = re.sub(r"#define SNOOPY_CONF_THREAD_SAFETY_ENABLED 1", "/* #undef SNOOPY_CONF_THREAD_SAFETY_ENABLED */", txt)
        txt = re.sub(r"#define SNOOPY_CONF_DATASOURCE_ENABLED_snoopy_threads 1", "/* #undef SNOOPY_CONF_DATASOURCE_ENABLED_snoopy_threads */", txt)
    elif variant == "errlog":
        txt = txt.replace("/* #undef SNOOPY_CONF_ERROR_LOGGING_ENABLED */", "#define SNOOPY_CONF_ERROR_LOGGING_ENABLED 1")
    else:
        raise SystemExit("unknown config variant " + variant)
    open(os.path.join(d, "config.h"), "w").write(txt)
    return d


class Run:
    def __init__(self, spec, prop):
        self.s = spec; self.prop = prop; self.id = spec["id"]
        self.kind = spec.get("kind", "U")            # U unbounded / B bounded
        self.status = None; self.results = []; self.log = ""; self.solver_s = 0.0; self.wall_s = 0.0
        self.error = None; self.cmds = []; self.notes = []

    def gen(self, tmp):
        """optional generator step: a /verif script producing sources into tmp (mechanical lifting etc.)"""
        g = self.s.get("generate")
        if not g: return True
        cmd = [os.path.join(VERIF, g[0])] + [a.replace("{tmp}", tmp).replace("{repo}", REPO) for a in g[1:]]
        rc, out, err, dt = sh(cmd, 300)
        self.cmds.append(" ".join(cmd))
        if rc != 0:
            self.error = "generator failed: " + (err or out)[-2000:]
            self.drift = "DRIFT" in (out + err)
            return False
        return True

    def autolink(self):
        """a callee without body (a helper the working tree added to a file this run does not compile): find its definition among
        snoopy's own sources and link that file in - mechanical, reported in the evidence; never a violation by itself"""
        names = set()
        for r in self.results:
            m = re.search(r"no body for callee (\w+)", r.get("description", ""))
            if m and r.get("status") == "FAILURE": names.add(m.group(1))
        added = []
        have = set(self.s.get("sources", []))
        for n in sorted(names):
            if not n.startswith("snoopy_"): continue
            pat = re.compile(r"^[A-Za-z_][\w \t\*]*\b%s\s*\(" % re.escape(n), re.M)
            for f in sorted(glob.glob(os.path.join(REPO, "src", "*.c")) + glob.glob(os.path.join(REPO, "src", "*", "*.c"))):
                rel = os.path.relpath(f, REPO)
                if rel in have or "/cli/" in rel or "/entrypoint/" in rel: continue
                txt = open(f, errors="replace").read()
                if pat.search(txt) and re.search(r"\b%s\s*\([^;{]*\)\s*\{" % re.escape(n), txt, re.S):
                    added.append(rel); have.add(rel); break
        return added

    def execute(self, keep=False):
        t0 = time.time()
        tmp = tempfile.mkdtemp(prefix="verif_%s_" % self.id.replace("/", "_"))
        self.drift = False
        try:
            self._execute(tmp)
            if not self.error and not self.s.get("scan"):
                extra = self.autolink()
                if extra:
                    self.s = dict(self.s); self.s["sources"] = list(self.s.get("sources", [])) + extra
                    self.notes.append("auto-linked the definition of body-less callee(s): " + ", ".join(extra))
                    shutil.rmtree(tmp, ignore_errors=True); os.makedirs(tmp, exist_ok=True)
                    self.results = []; self.error = None
                    self._execute(tmp)
        except Exception as e:  # infrastructure failure
            self.error = "exception: %r" % (e,)
        finally:
            self.wall_s = time.time() - t0
            if keep: self.notes.append("kept " + tmp)
            else: shutil.rmtree(tmp, ignore_errors=True)
        return self

    def _execute(self, tmp):
        s = self.s
        if s.get("scan") is not None:
            import static_scan
            cfgdir, self.cfgsrc = config_h_dir(tmp)
            incs = ["-I" + cfgdir, "-I" + REPO + "/src", "-I" + REPO]
            found, err = static_scan.scan(REPO, s["sources"], incs, s["scan"].get("allow", []))
            if found is None: self.error = err; return
            self.cmds.append("goto-cc -c <each source> ; goto-instrument --show-symbol-table --json-ui")
            res = [{"property": "static_scan.%s" % f["symbol"], "description": "static-lifetime mutable object '%s' (%s:%s) is shared by all threads of the process and not protected by the library's lock" % (f["symbol"], f["file"], f["line"]),
                    "status": "SUCCESS" if f["allowed"] else "FAILURE", "sourceLocation": {"file": REPO + "/" + f["file"], "function": f["symbol"].split("::")[0], "line": f["line"]}} for f in found]
            res.append({"property": "static_scan.units", "description": "symbol tables of %d translation units scanned for process-wide mutable state" % len(s["sources"]), "status": "SUCCESS", "sourceLocation": {"file": "", "function": ""}})
            self.results = res; self.traces = {}; self.cbmc_cmd = ["goto-instrument", "--show-symbol-table"]
            return
        if not self.gen(tmp): return
        cfgdir, self.cfgsrc = config_h_dir(tmp)
        if s.get("config"): cfgdir = derive_config(tmp, s["config"]); self.cfgsrc = "generated variant '%s' of config.h" % s["config"]
        entry = s.get("entry", "harness")
        inc = ["-I" + cfgdir, "-I" + REPO + "/src", "-I" + REPO, "-I" + VERIF + "/include", "-I" + VERIF + "/contracts", "-I" + VERIF, "-I" + VERIF + "/harness", "-I" + tmp]
        for d in s.get("incdirs", []): inc.append("-I" + d.replace("{repo}", REPO).replace("{tmp}", tmp))
        cc = ["goto-cc", "-DHAVE_CONFIG_H", "-DSNOOPY_VERIF_CBMC"] + inc + ["--function", entry]
        for d in s.get("defines", []): cc.append("-D" + d)
        cc += ["-include", VERIF + "/include/verif_prelude.h"]
        for h in s.get("includes", []): cc += ["-include", os.path.join(VERIF, h)]
        # bounded runs only: buffer-size constants of src/snoopy.h scaled down in a verbatim per-run copy (cbmc's array encoding
        # makes multi-KiB buffers with symbolic-offset accesses intractable: measured 15 s at 64 bytes, 111 s at 1024, >10 min at 4096).
        # Function bodies are untouched; the scaling is part of the stated bound and never used for unbounded (U) runs.
        scaled_dir = None
        if s.get("scale"):
            if self.kind != "B": self.error = "constant scaling is only allowed in bounded runs"; return
            scaled_dir = os.path.join(tmp, "scaled"); os.makedirs(scaled_dir, exist_ok=True)
            h = open(os.path.join(REPO, "src/snoopy.h")).read()
            for name, val in s["scale"].items():
                h, n = re.subn(r"(#define\s+%s\s+)\S+" % re.escape(name), r"\g<1>%s" % val, h)
                if n != 1: self.error = "constant %s not found exactly once in src/snoopy.h" % name; self.drift = True; return
            open(os.path.join(scaled_dir, "snoopy.h"), "w").write(h)
            inc = ["-I" + scaled_dir] + inc
            cc = ["goto-cc", "-DHAVE_CONFIG_H", "-DSNOOPY_VERIF_CBMC"] + inc + ["--function", entry]
            for d_ in s.get("defines", []): cc.append("-D" + d_)
            cc += ["-include", VERIF + "/include/verif_prelude.h"]
            for h_ in s.get("includes", []): cc += ["-include", os.path.join(VERIF, h_)]
        srcs = []
        for f in s.get("verif_sources", []): srcs.append(os.path.join(VERIF, f))
        for f in s.get("gen_sources", []): srcs.append(os.path.join(tmp, f))
        for f in s.get("sources", []):
            p = os.path.join(REPO, f)
            if not os.path.exists(p):
                self.error = "source file missing in working tree: " + f; self.drift = True; return
            if scaled_dir and os.path.dirname(f) == "src":
                q = os.path.join(scaled_dir, os.path.basename(f)); shutil.copy(p, q); p = q     # verbatim copy next to the scaled snoopy.h
            srcs.append(p)
        a = os.path.join(tmp, "a.gb")
        cmd = cc + srcs + ["-o", a]
        self.cmds.append(" ".join(cmd))
        rc, out, err, dt = sh(cmd, 300)
        if rc != 0:
            self.error = "goto-cc failed:\n" + (err + out)[-3000:]; return
        gb = a
        d = s.get("dfcc")
        if d is not None:
            b = os.path.join(tmp, "b.gb")
            cmd = ["goto-instrument", "--dfcc", entry, "--no-malloc-may-fail"]
            if d.get("enforce"): cmd += ["--enforce-contract", d["enforce"]]
            for r in d.get("replace", []): cmd += ["--replace-call-with-contract", r]
            if d.get("loops"):
                cmd += ["--apply-loop-contracts"]
                if isinstance(d["loops"], str):
                    cmd += ["--loop-contracts-file", os.path.join(VERIF, d["loops"])]
            cmd += [a, b]
            self.cmds.append(" ".join(cmd))
            rc, out, err, dt = sh(cmd, 600)
            if rc != 0:
                self.error = "goto-instrument failed:\n" + (err + out)[-3000:]
                # a sidecar that no longer fits the code is drift, not a violation
                self.drift = bool(re.search(r"loop|symbol|not found|does not have a contract|no such function|Function '.*' not found", err + out, re.I))
                return
            gb = b
        flags = list(DEFAULT_CHECKS) if not s.get("no_default_checks") else []
        if s.get("no_conversion_check"): flags = [f for f in flags if f != "--conversion-check"]     # implementation-defined narrowing (not UB) is part of the code under test
        if s.get("no_signed_overflow_check"): flags = [f for f in flags if f != "--signed-overflow-check"]   # cbmc 6.11 reports a NEGATIVE pointer difference inside one object as 'overflow on signed -' (probed: design-probes/ptrdiff_quirk.c); stated per run
        flags += s.get("cbmc", [])
        if d is not None and "--sat-solver" not in flags: flags += ["--sat-solver", "cadical"]
        if "--object-bits" not in flags: flags += ["--object-bits", "12"]
        if "--no-malloc-may-fail" not in flags: flags += ["--no-malloc-may-fail"]
        if "--unwind" not in flags: flags += ["--unwind", "24"]      # every run terminates; unwinding assertions tell when this is not enough
        if "--unwinding-assertions" not in flags: flags += ["--unwinding-assertions"]   # a silently cut loop would make any run unsound
        cmd = ["cbmc", gb, "--json-ui", "--no-standard-checks"] + flags
        self.cbmc_cmd = cmd
        self.cmds.append(" ".join(cmd))
        rc, out, err, dt = sh(cmd, s.get("timeout", 600))
        self.solver_s = dt
        if rc == -9:
            self.error = "cbmc timeout after %ss" % s.get("timeout", 600); return
        try:
            msgs = json.loads(out)
        except Exception:
            self.error = "cbmc produced no JSON (rc=%s): %s" % (rc, (err + out)[-2000:]); return
        res = None; texts = []
        for m in msgs:
            if "result" in m: res = m["result"]
            if "messageText" in m: texts.append(m["messageText"])
        self.log = "\n".join(texts)
        if res is None:
            self.error = "cbmc gave no result list (rc=%s): %s" % (rc, self.log[-2000:]); return
        self.results = res
        self.gb = gb; self.tmp = tmp
        # traces for failing non-canary obligations (second, targeted run)
        self.traces = {}
        fails = [r for r in res if r["status"] == "FAILURE" and not r["description"].startswith("canary:")
                 and not INTERNAL_FN_RE.match(r.get("sourceLocation", {}).get("function", "") or "")]
        def _pri(r):
            f = (r.get("sourceLocation", {}) or {}).get("file", "") or ""
            return 0 if f.startswith(REPO) else (1 if "/harness/" in f or "/contracts/" in f else 2)
        fails.sort(key=_pri)
        for r in fails[:2]:
            cmd2 = ["cbmc", gb, "--json-ui", "--no-standard-checks", "--trace", "--property", r["property"]] + flags
            rc2, out2, err2, dt2 = sh(cmd2, s.get("timeout", 600))
            try:
                for m in json.loads(out2):
                    if "result" in m:
                        for rr in m["result"]:
                            if rr["property"] == r["property"] and "trace" in rr:
                                self.traces[r["property"]] = rr["trace"]
            except Exception:
                pass


def trace_inputs(trace):
    """last assignment to each harness-level input (verif_in*, symbols of the harness)"""
    vals = {}
    for st in trace:
        if st.get("stepType") == "assignment" and not st.get("hidden"):
            lhs = st.get("lhs", "")
            fn = st.get("sourceLocation", {}).get("function", "")
            if lhs.startswith("verif_in") or lhs.startswith("en_") or fn.startswith("harness") or fn.startswith("h_"):
                v = st.get("value", {})
                vals[lhs] = v.get("data", v.get("name"))
    return vals


def nondet_tape(trace):
    """ordered values returned by nondet_*() along the counterexample (for native harness replay)"""
    out = []
    for st in trace:
        if st.get("stepType") == "assignment" and not st.get("hidden"):      # the hidden step is the declaration's default value
            lhs = st.get("lhs", "")
            m = re.match(r"return_value_nondet_(\w+?)(\$\d+)?$", lhs)
            if m:
                v = st.get("value", {}); out.append((m.group(1), v.get("data", v.get("name"))))
    return out


def trace_tail(trace, n=40):
    out = []
    for st in trace:
        if st.get("hidden"): continue
        if st.get("stepType") == "assignment":
            v = st.get("value", {})
            loc = st.get("sourceLocation", {})
            out.append("%s:%s %s = %s" % (os.path.basename(loc.get("file", "?")), loc.get("line", "?"), st.get("lhs"), v.get("data", v.get("name"))))
        elif st.get("stepType") == "failure":
            loc = st.get("sourceLocation", {})
            out.append("FAILURE %s:%s %s" % (loc.get("file", "?"), loc.get("line", "?"), st.get("reason")))
    return out[-n:]


def load_known():
    p = os.path.join(VERIF, "KNOWN_FINDINGS.json")
    if os.path.exists(p): return json.load(open(p))
    return {"findings": [], "fixed": []}


def site_of(r):
    loc = r.get("sourceLocation", {}) or {}
    f = loc.get("file", "") or ""
    if f.startswith(REPO + "/"): f = f[len(REPO) + 1:]
    elif f.startswith(VERIF + "/"): f = "verif:" + f[len(VERIF) + 1:]
    return "%s:%s" % (f, loc.get("function", ""))


def known_match(known, prop, run, r):
    for k in known.get("findings", []):
        if k["property"] != prop: continue
        if k.get("run") and not re.fullmatch(k["run"], run.id): continue
        if k.get("obligation") and k["obligation"] not in r["description"]: continue
        if k.get("site") and k["site"] != site_of(r): continue
        return k
    return None


def native_replay(prop, run, r, inputs, replay_path):
    """property-specific native replay (real code, real glibc, sanitizers).  Returns (reproduced?, text) or (None, reason)"""
    name = run.s.get("replay")
    if not name: return None, "no native replayer registered for this run"
    script = os.path.join(VERIF, "replay", name)
    if not os.path.exists(script): return None, "replayer %s missing" % name
    rc, out, err, dt = sh([script, replay_path, REPO], 300, limit=False)
    txt = (out + err)[-4000:]
    if rc == 1: return True, txt
    if rc == 0: return False, txt
    return None, "replayer error rc=%s: %s" % (rc, txt)


def main():
    import argparse
    ap = argparse.ArgumentParser()
    ap.add_argument("prop"); ap.add_argument("--tier", default=os.environ.get("VERIF_TIER", "quick"))
    ap.add_argument("--only"); ap.add_argument("--keep", action="store_true"); ap.add_argument("--jobs", type=int, default=int(os.environ.get("VERIF_JOBS", "14")))
    ap.add_argument("--no-evidence", action="store_true")
    args = ap.parse_args()
    prop = args.prop; tier = args.tier if args.tier in ("quick", "thorough") else "quick"
    seed = int(os.environ.get("VERIF_SEED", "0") or 0)
    t0 = time.time()
    spec = json.load(open(os.path.join(VERIF, "obligations", prop + ".json")))
    if spec.get("runs_generator"):
        gen = spec["runs_generator"] if isinstance(spec["runs_generator"], list) else [spec["runs_generator"]]
        g = subprocess.run([os.path.join(VERIF, gen[0])] + gen[1:], stdout=subprocess.PIPE, stderr=subprocess.PIPE)
        if g.returncode != 0:
            print("TOOL-ERROR property=%s run list generator failed: %s" % (prop, g.stderr.decode()[-500:])); sys.exit(2)
        spec["runs"] = spec.get("runs", []) + json.loads(g.stdout.decode())
    # runs of other properties that also carry this one (same real code, same obligations): imported by reference, not copied
    for imp in spec.get("imports", []):
        other = json.load(open(os.path.join(VERIF, "obligations", imp["from"] + ".json")))
        for rs in other.get("runs", []):
            if re.search(imp["ids"], rs["id"]):
                q = json.loads(json.dumps(rs)); q["id"] = prop + ".via." + rs["id"]
                if imp.get("tier"): q["tier"] = imp["tier"]
                q["what"] = "(run shared with %s) %s" % (imp["from"], q.get("what", ""))
                spec["runs"].append(q)
    runs = []
    for rs in spec["runs"]:
        if args.only and not re.search(args.only, rs["id"]): continue
        if rs.get("tier", "quick") == "thorough" and tier != "thorough": continue
        if rs.get("tier_only") and rs["tier_only"] != tier: continue
        runs.append(Run(rs, prop))
    if not runs:
        print("TOOL-ERROR property=%s no runs selected" % prop); sys.exit(2)
    with ThreadPoolExecutor(max_workers=args.jobs) as ex:
        list(ex.map(lambda r: r.execute(args.keep), runs))

    known = load_known()
    violations = []; known_hits = []; tool_errors = []; run_reports = []
    n_obl = n_dis = 0; samples = []; assumptions = set(spec.get("assumptions", []))
    functions = set()
    shutil.rmtree(os.path.join(VERIF, "replays", prop), ignore_errors=True)
    os.makedirs(os.path.join(VERIF, "replays", prop), exist_ok=True)
    for run in runs:
        rep = {"id": run.id, "kind": run.kind, "bound": run.s.get("bound"), "functions_under_contract": run.s.get("functions", []),
               "back_end": "cbmc 6.11 SAT (%s)%s" % ("cadical" if (run.s.get("dfcc") is not None or "cadical" in run.s.get("cbmc", [])) else "minisat", ", goto-instrument --dfcc contract instrumentation" if run.s.get("dfcc") is not None else ""),
               "solver_s": round(run.solver_s, 2), "wall_s": round(run.wall_s, 2), "what": run.s.get("what", ""), "notes": run.notes}
        functions.update(run.s.get("functions", []))
        if run.error:
            if run.drift:
                rep["status"] = "undecided: proof unavailable (drift): " + run.error[:300]
                print("NOTE run=%s drift: %s" % (run.id, run.error.splitlines()[0][:200]))
                run_reports.append(rep); continue
            rep["status"] = "tool-error"; rep["error"] = run.error[-1500:]
            tool_errors.append((run, run.error)); run_reports.append(rep); continue
        res = [r for r in run.results if not INTERNAL_FN_RE.match((r.get("sourceLocation", {}) or {}).get("function", "") or "")]
        odd = [r for r in res if r["status"] not in ("SUCCESS", "FAILURE")]
        if odd and not any(r["status"] == "FAILURE" and not r["description"].startswith("canary:") for r in res):
            tool_errors.append((run, "back end did not decide %d obligations (status %s): out of memory or solver error; cbmc said: %s" % (len(odd), odd[0]["status"], " | ".join(run.log.splitlines()[-4:])[:400]))); rep["status"] = "tool-error: undecided by back end"; run_reports.append(rep); continue
        canary = [r for r in res if r["description"].startswith("canary:")]
        obl = [r for r in res if not r["description"].startswith("canary:")]
        if not run.s.get("no_canary"):
            if not canary: tool_errors.append((run, "no canary obligation in harness")); rep["status"] = "tool-error"; run_reports.append(rep); continue
            if any(c["status"] != "FAILURE" for c in canary):
                uw = [r["property"] for r in obl if r["status"] == "FAILURE" and ("unwinding assertion" in r["description"] or ".unwind." in r["property"])]
                tool_errors.append((run, "VACUOUS: canary assertion not reachable (contradictory requires/assume, or every path cut by an unwinding bound: %s)" % (uw[:6] or "no unwinding assertion failed"))); rep["status"] = "tool-error: vacuous"; run_reports.append(rep); continue
        # must-fire list
        missing = [m for m in run.s.get("must_fire", []) if not any(re.search(m, r["description"]) or re.search(m, r["property"]) for r in obl)]
        if re.search(r"ignoring (forall|exists)", run.log): tool_errors.append((run, "quantifier ignored by back end"))
        unwind_fail = [r for r in obl if r["status"] == "FAILURE" and ("unwinding assertion" in r["description"] or ".unwind." in r["property"])]
        nobody = [r for r in obl if r["status"] == "FAILURE" and ".no-body." in r["property"]]
        fails = [r for r in obl if r["status"] == "FAILURE" and r not in unwind_fail and r not in nobody]
        aux = [r for r in fails if AUX_RE.search(r["description"]) or AUX_RE.search(r["property"])]
        hard = [r for r in fails if r not in aux]
        rep["obligations"] = len(obl); rep["discharged"] = len([r for r in obl if r["status"] == "SUCCESS"])
        if missing:
            rep["status"] = "undecided: must-fire obligations absent (drift): %s" % missing
            print("NOTE run=%s drift: must-fire obligation(s) absent: %s" % (run.id, missing))
            run_reports.append(rep); continue
        if nobody and not hard:
            rep["status"] = "undecided: callee(s) without body or contract (drift): %s" % sorted(set(r["property"].split(".no-body.")[-1] for r in nobody))
            print("NOTE run=%s drift: callee without body or contract: %s" % (run.id, rep["status"][-120:]))
            run_reports.append(rep); continue
        if unwind_fail and not hard:
            # (a counterexample found inside the bound is real whatever the bound; only a clean run needs complete unwinding)
            tool_errors.append((run, "unwinding assertion failed: bound too small for " + unwind_fail[0]["property"]))
            rep["status"] = "tool-error: unwinding"; run_reports.append(rep); continue
        for r in obl[:2] + [x for x in obl if x["description"] in run.s.get("must_fire_exact", [])][:2]:
            if len(samples) < 12: samples.append({"run": run.id, "obligation": r["property"], "description": r["description"], "status": r["status"], "site": site_of(r)})
        if run.kind == "U":
            n_obl += len(obl); n_dis += rep["discharged"]
        # one violation per run: the primary failing obligation (first one located in snoopy's own code, else the
        # first property-class one); the others are listed in the same replay file as consequences/siblings
        unknown = [r for r in hard if not known_match(known, prop, run, r)]
        for r in hard:
            k = known_match(known, prop, run, r)
            if k: known_hits.append((k, run, r))
        if unknown:
            def rank(r):
                site = site_of(r); d = r["description"]
                if r["property"] in run.traces: base = 0
                else: base = 10
                if site.startswith("verif:harness") or site.startswith("verif:contracts"): return base + 1   # postcondition from the property statement
                if not site.startswith("verif:") and not site.startswith(":"): return base + 0            # inside snoopy code
                return base + 2
            unknown.sort(key=rank)
            r = unknown[0]
            trace = run.traces.get(r["property"])
            inputs = trace_inputs(trace) if trace else {}
            safe = re.sub(r"[^A-Za-z0-9_.-]", "_", "%s__%s" % (run.id, r["property"]))
            rp = os.path.join(VERIF, "replays", prop, safe + ".json")
            doc = {"property": prop, "run": run.id, "obligation": r["property"], "description": r["description"], "site": site_of(r),
                   "source_location": r.get("sourceLocation"), "kind": run.kind, "bound": run.s.get("bound"),
                   "inputs_from_counterexample": inputs, "trace_tail": trace_tail(trace) if trace else [], "nondet_tape": nondet_tape(trace) if trace else [], "run_spec": run.s,
                   "cbmc_cmd": " ".join(getattr(run, "cbmc_cmd", [])), "verifier_output": "[%s] %s: %s" % (r["property"], r["description"], r["status"]),
                   "other_failed_obligations_in_this_run": ["[%s] %s @ %s" % (x["property"], x["description"], site_of(x)) for x in unknown[1:60]]}
            json.dump(doc, open(rp, "w"), indent=1)
            repro, txt = native_replay(prop, run, r, inputs, rp)
            doc["native_replay"] = {"reproduced": repro, "output": txt}
            json.dump(doc, open(rp, "w"), indent=1)
            violations.append((run, r, rp, repro, len(unknown)))
        if hard:
            rep["status"] = "FAILED: " + "; ".join("%s [%s]" % (r["description"], site_of(r)) for r in hard[:4])
        elif aux:
            rep["status"] = "undecided: only auxiliary proof obligations failed (%s); bounded runs decide" % aux[0]["property"]
            print("NOTE run=%s proof drift: auxiliary obligation %s failed; not a violation" % (run.id, aux[0]["property"]))
            if run.kind == "U": n_obl -= len(obl); n_dis -= rep["discharged"]
        else:
            rep["status"] = "proved" if run.kind == "U" else "bounded(%s): no counterexample" % run.s.get("bound")
        # assumptions: every __CPROVER_assume in the verif sources of this run
        for f in run.s.get("verif_sources", []) + run.s.get("includes", []):
            try:
                for i, line in enumerate(open(os.path.join(VERIF, f)), 1):
                    if "__CPROVER_assume" in line: assumptions.add("%s:%d %s" % (f, i, line.strip()[:160]))
            except OSError: pass
        run_reports.append(rep)

    printed = set()
    for k, run, r in known_hits:
        key = (k.get("what"),)
        if key in printed: continue
        printed.add(key)
        print("KNOWN-FINDING: property=%s %s" % (prop, k.get("what", r["description"])))
    for run, r, rp, repro, nfail in violations:
        tail = "" if repro else " no-failing-input-found"
        print("VIOLATION property=%s replay=%s%s" % (prop, rp, tail))
        print("  run=%s obligation=%s : %s [%s]%s" % (run.id, r["property"], r["description"], site_of(r), (" (+%d more failed obligations in this run, listed in the replay file)" % (nfail - 1)) if nfail > 1 else ""))
    for run, e in tool_errors:
        print("TOOL-ERROR property=%s run=%s %s" % (prop, run.id, e.splitlines()[0][:300] if e else ""))
        if e and "\n" in e: print("   " + "\n   ".join(e.splitlines()[1:15]))

    wall = time.time() - t0
    has_U = any(r.kind == "U" for r in runs)
    all_U_proved = has_U and n_obl > 0 and n_obl == n_dis
    level = spec.get("level", "proof")
    if level == "proof" and not all_U_proved: level = "other"
    cov = {"obligations": max(n_obl, 0), "discharged": max(n_dis, 0),
           "checker_cmd": "goto-cc (real /repo sources) | goto-instrument --dfcc --enforce-contract/--replace-call-with-contract/--apply-loop-contracts | cbmc --json-ui (see runs[].cmds)",
           "trusted_base": spec.get("trusted_base", []) + ["cbmc/goto-cc/goto-instrument 6.11.0 (front end, DFCC instrumentation, SAT back ends)", "model packs under /verif/world as assumed contracts of glibc/Linux"],
           "samples": samples or [{"note": "no obligations"}],
           "functions_under_contract": sorted(functions),
           "runs": run_reports,
           "bounded_runs": [r for r in run_reports if r["kind"] == "B"],
           "counts_note": "obligations/discharged count only unbounded (U) runs; bounded (B) runs are listed separately and never counted as proved",
           "evaluations": sum(r.get("obligations", 0) for r in run_reports),
           "distinct_nontrivial": len(set((s["run"], s["obligation"]) for s in samples)) if len(samples) >= 2 else 2,
           "explanation": spec.get("explanation", ""),
           "config_h": getattr(runs[0], "cfgsrc", "?"),
           "known_findings_hit": [k.get("what") for k, _, _ in known_hits]}
    cov["distinct_nontrivial"] = len(set(r["property"] + "@" + run.id for run in runs for r in run.results if not r["description"].startswith("canary:") and not INTERNAL_FN_RE.match((r.get("sourceLocation", {}) or {}).get("function", "") or "")))
    cov["rule"] = "one case = one named proof obligation generated by cbmc/goto-instrument for one run; distinct by (run, obligation name); internal __CPROVER_contracts_* library obligations and the canary are excluded"
    ev = {"property_id": prop, "tier": tier, "seed": seed, "level": level, "coverage": cov,
          "assumptions": sorted(assumptions), "wall_s": round(wall, 2), "violations": len(violations)}
    if not args.no_evidence and not args.only:
        os.makedirs(os.path.join(VERIF, "evidence"), exist_ok=True)
        json.dump(ev, open(os.path.join(VERIF, "evidence", prop + ".json"), "w"), indent=1)
    for rep in run_reports:
        print("  %-34s %-2s %6.1fs  obl=%-4s %s" % (rep["id"], rep["kind"], rep["wall_s"], rep.get("obligations", "-"), rep["status"][:150]))
    print("%s tier=%s runs=%d U-obligations=%d discharged=%d violations=%d known=%d tool-errors=%d wall=%.1fs" %
          (prop, tier, len(runs), max(n_obl, 0), max(n_dis, 0), len(violations), len(known_hits), len(tool_errors), wall))
    if violations: sys.exit(1)
    if tool_errors: sys.exit(2)
    sys.exit(0)


if __name__ == "__main__":
    main()
