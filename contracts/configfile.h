/* C08/C11 — frame contracts of the option-value parsers (src/configfile.c): each parser writes ONLY the field(s) of its own option in the
 * configuration record (and releases the string it replaces) - whatever the value text and whatever the record held before.  That every
 * other option keeps its value is what makes "options are independent" and "the last occurrence wins" hold per option. */
#pragma once
#include "snoopy.h"
#include "configuration.h"
#define VERIF_PV(name, ...) \
int snoopy_configfile_parseValue_##name (const char *confValString, snoopy_configuration_t* CFG) \
__CPROVER_requires(__CPROVER_r_ok(confValString, 1) && __CPROVER_w_ok(CFG, sizeof(*CFG))) \
__CPROVER_assigns(__VA_ARGS__) \
__CPROVER_ensures(1);
/* string options: the previous value may be released (only if the record owned it - checked by the RI runs) */
#define VERIF_PVS(name, field, ...) \
int snoopy_configfile_parseValue_##name (const char *confValString, snoopy_configuration_t* CFG) \
__CPROVER_requires(__CPROVER_r_ok(confValString, 1) && __CPROVER_w_ok(CFG, sizeof(*CFG))) \
__CPROVER_assigns(__VA_ARGS__) \
__CPROVER_frees(CFG->field) \
__CPROVER_ensures(1);
#if defined(PV_error_logging)
VERIF_PV(error_logging, CFG->error_logging_enabled)
#elif defined(PV_filter_chain)
VERIF_PVS(filter_chain, filter_chain, CFG->filter_chain, CFG->filter_chain_malloced)
#elif defined(PV_message_format)
VERIF_PVS(message_format, message_format, CFG->message_format, CFG->message_format_malloced)
#elif defined(PV_output)
VERIF_PV(output, CFG->output, CFG->output_malloced, CFG->output_arg, CFG->output_arg_malloced)
#elif defined(PV_syslog_facility)
VERIF_PV(syslog_facility, CFG->syslog_facility)
#elif defined(PV_syslog_ident)
VERIF_PVS(syslog_ident, syslog_ident_format, CFG->syslog_ident_format, CFG->syslog_ident_format_malloced)
#elif defined(PV_syslog_level)
VERIF_PV(syslog_level, CFG->syslog_level)
#elif defined(PV_datasource_message_max_length)
VERIF_PV(datasource_message_max_length, CFG->datasource_message_max_length)
#elif defined(PV_log_message_max_length)
VERIF_PV(log_message_max_length, CFG->log_message_max_length)
#endif
