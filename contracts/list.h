/* C09/C16 — LOCAL contracts of the doubly linked list behind the thread repository (src/util/list.c).  No inductive list predicate is
 * needed: push only touches the list head and the current last node, remove only the node and its two neighbours; every other node of a
 * list of ANY length is outside the assigns clause, i.e. provably untouched.  first->prev is deliberately not constrained (the code
 * never reads it; remove-first leaves it dangling). */
#pragma once
#include <limits.h>
/* (util/list-snoopy.h has no include guard: this file is included by the harness right after the real util/list.c) */
int snoopy_util_list_push (list_t * list, void * newNodeValue)
__CPROVER_requires(__CPROVER_is_fresh(list, sizeof(*list)) && list->count >= 0 && list->count < INT_MAX)
__CPROVER_requires((list->last == NULL && list->first == NULL) || (list->first != NULL && __CPROVER_is_fresh(list->last, sizeof(listNode_t)) && list->last->next == NULL))
__CPROVER_assigns(*list; list->last != NULL: list->last->next)
__CPROVER_ensures(__CPROVER_return_value == 1)        /* SNOOPY_SUCCESS (allocation failure is outside the domain) */
__CPROVER_ensures(list->count == __CPROVER_old(list->count) + 1)
__CPROVER_ensures(__CPROVER_is_fresh(list->last, sizeof(listNode_t)) && list->last->value == newNodeValue && list->last->next == NULL)
__CPROVER_ensures(__CPROVER_old(list->last) == NULL ? (list->first == list->last && list->last->prev == NULL)
                                                     : (list->first == __CPROVER_old(list->first) && list->last->prev == __CPROVER_old(list->last) && __CPROVER_old(list->last)->next == list->last));

void * snoopy_util_list_remove (list_t * list, listNode_t * nodeToRemove)
__CPROVER_requires(__CPROVER_is_fresh(list, sizeof(*list)) && list->count >= 1)
__CPROVER_requires(__CPROVER_is_fresh(nodeToRemove, sizeof(*nodeToRemove)) && list->first != NULL && list->last != NULL)
__CPROVER_requires(nodeToRemove == list->first || (__CPROVER_is_fresh(nodeToRemove->prev, sizeof(listNode_t)) && nodeToRemove->prev->next == nodeToRemove))
__CPROVER_requires(nodeToRemove == list->last  || (__CPROVER_is_fresh(nodeToRemove->next, sizeof(listNode_t)) && nodeToRemove->next->prev == nodeToRemove))
__CPROVER_assigns(*list; nodeToRemove != list->first: nodeToRemove->prev->next; nodeToRemove != list->last: nodeToRemove->next->prev)
__CPROVER_frees(nodeToRemove)
__CPROVER_ensures(__CPROVER_return_value == __CPROVER_old(nodeToRemove->value))
__CPROVER_ensures(list->count == __CPROVER_old(list->count) - 1)
__CPROVER_ensures(__CPROVER_was_freed(nodeToRemove))
__CPROVER_ensures(((nodeToRemove == __CPROVER_old(list->first)) && (nodeToRemove == __CPROVER_old(list->last))) ==> (list->first == NULL && list->last == NULL))
__CPROVER_ensures(((nodeToRemove == __CPROVER_old(list->first)) && !(nodeToRemove == __CPROVER_old(list->last))) ==> (list->first == __CPROVER_old(nodeToRemove->next) && list->last == __CPROVER_old(list->last)))
__CPROVER_ensures((!(nodeToRemove == __CPROVER_old(list->first)) && (nodeToRemove == __CPROVER_old(list->last))) ==> (list->last == __CPROVER_old(nodeToRemove->prev) && list->last->next == NULL && list->first == __CPROVER_old(list->first)))
__CPROVER_ensures((!(nodeToRemove == __CPROVER_old(list->first)) && !(nodeToRemove == __CPROVER_old(list->last))) ==>
   (__CPROVER_old(nodeToRemove->prev)->next == __CPROVER_old(nodeToRemove->next) && __CPROVER_old(nodeToRemove->next)->prev == __CPROVER_old(nodeToRemove->prev)
    && list->first == __CPROVER_old(list->first) && list->last == __CPROVER_old(list->last)));

listNode_t * snoopy_util_list_fetchNextNode (list_t * list, listNode_t * curNode)
__CPROVER_requires(__CPROVER_is_fresh(list, sizeof(*list)))
__CPROVER_requires(curNode == NULL || __CPROVER_is_fresh(curNode, sizeof(*curNode)))
__CPROVER_assigns()
__CPROVER_ensures(__CPROVER_return_value == ((list->first == NULL || list->last == NULL) ? (listNode_t *)NULL : (curNode == NULL ? list->first : curNode->next)));
