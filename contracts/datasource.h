/* C02/C12 — the contract every data source has to meet (one template; the function is chosen with -DVERIF_DS_FN=...).
 * Domain from the call sites: the result buffer is datasource_message_max_length+1 = 256..1048576 bytes (fixed 256 and
 * PATH_MAX callers in the outputs), the property statement says 257..1 MiB+1; we take the union.  The buffer starts empty
 * (message.c, devlogoutput.c and fileoutput.c store a NUL first).  arg is a string of at most 4096 bytes. */
#pragma once
#include "verif_ds.h"
extern size_t verif_arg_size;
_Bool verif_result_terminated(const char *buf, size_t n, int ret);
#define VERIF_DS_CONTRACT(fn) \
int fn (char * const resultBuf, size_t resultBufSize, char const * const arg) \
__CPROVER_requires(resultBufSize >= 256 && resultBufSize <= 1048577) \
__CPROVER_requires(__CPROVER_is_fresh(resultBuf, resultBufSize) && resultBuf[0] == 0) \
__CPROVER_requires(verif_arg_size >= 1 && verif_arg_size <= 4097 && __CPROVER_is_fresh(arg, verif_arg_size) && arg[verif_arg_size - 1] == 0) \
__CPROVER_assigns(__CPROVER_object_upto(resultBuf, resultBufSize), VERIF_WORLD_FRAME) \
__CPROVER_ensures(__CPROVER_return_value >= -1) \
__CPROVER_ensures(verif_result_terminated(resultBuf, resultBufSize, __CPROVER_return_value)) \
__CPROVER_ensures(verif_w.fd_open == 0 && verif_w.never == 0);
#ifdef VERIF_DS_FN
VERIF_DS_CONTRACT(VERIF_DS_FN)
#endif
