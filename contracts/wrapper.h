/* C01/C06 — frame contracts of the two wrapper phases around the logging action: init stores exactly the three pointers of THIS call in
 * the library's own record and writes nothing else (in particular nothing through filename/argv/envp: they are not in the assigns
 * clause); exit leaves only the library's record changed. */
#pragma once
#include "snoopy.h"
#include "inputdatastorage.h"
extern snoopy_inputdatastorage_t verif_ids;
void snoopy_entrypoint_execve_wrapper_init (const char *filename, char *const argv[], char *const envp[])
__CPROVER_assigns(verif_ids)
__CPROVER_ensures(verif_ids.filename == filename && verif_ids.argv == argv && verif_ids.envp == envp);
void snoopy_entrypoint_execve_wrapper_exit (void)
__CPROVER_assigns(verif_ids)
__CPROVER_ensures(verif_ids.initialized == SNOOPY_TRUE);
