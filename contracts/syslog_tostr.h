/* C08 — contracts of the syslog facility/level name converters (src/util/syslog.c), each enforced in its own DFCC run.
 * Postcondition: the returned pointer is the documented upper-case name of the value (spec tables below, written from
 * doc/ and etc/snoopy.ini.in, not from the code), "(invalid)" for every other int; frame: nothing is written. */
#pragma once
#include <syslog.h>
static inline const char *verif_spec_facility(int f){
  switch (f) { case LOG_AUTH: return "AUTH"; case LOG_AUTHPRIV: return "AUTHPRIV"; case LOG_CRON: return "CRON"; case LOG_DAEMON: return "DAEMON";
    case LOG_FTP: return "FTP"; case LOG_KERN: return "KERN"; case LOG_LOCAL0: return "LOCAL0"; case LOG_LOCAL1: return "LOCAL1";
    case LOG_LOCAL2: return "LOCAL2"; case LOG_LOCAL3: return "LOCAL3"; case LOG_LOCAL4: return "LOCAL4"; case LOG_LOCAL5: return "LOCAL5";
    case LOG_LOCAL6: return "LOCAL6"; case LOG_LOCAL7: return "LOCAL7"; case LOG_LPR: return "LPR"; case LOG_MAIL: return "MAIL";
    case LOG_NEWS: return "NEWS"; case LOG_SYSLOG: return "SYSLOG"; case LOG_USER: return "USER"; case LOG_UUCP: return "UUCP"; default: return "(invalid)"; } }
static inline const char *verif_spec_level(int l){
  switch (l) { case LOG_EMERG: return "EMERG"; case LOG_ALERT: return "ALERT"; case LOG_CRIT: return "CRIT"; case LOG_ERR: return "ERR";
    case LOG_WARNING: return "WARNING"; case LOG_NOTICE: return "NOTICE"; case LOG_INFO: return "INFO"; case LOG_DEBUG: return "DEBUG"; default: return "(invalid)"; } }
/* byte equality of two terminated strings of at most 15 bytes, loop-free for the verifier after 16 unwindings */
static inline _Bool verif_streq16(const char *a, const char *b){
  if (a == 0 || b == 0) return 0;
  for (int i = 0; i < 16; i++) { if (!__CPROVER_r_ok(a + i, 1)) return 0; if (a[i] != b[i]) return 0; if (a[i] == 0) return 1; }
  return 0; }
const char * snoopy_util_syslog_convertFacilityToStr (int facilityInt)
__CPROVER_assigns()
__CPROVER_ensures(verif_streq16(__CPROVER_return_value, verif_spec_facility(facilityInt)));
const char * snoopy_util_syslog_convertLevelToStr (int levelInt)
__CPROVER_assigns()
__CPROVER_ensures(verif_streq16(__CPROVER_return_value, verif_spec_level(levelInt)));
