/* C07 — contract of snoopy_filtering_check_chain (token level) and the ghost log of the filter registry models */
#pragma once
#include <stddef.h>
struct verif_c07_s { int consulted; int dropped; int consulted_after_drop; int consulted_unknown; int last_exist; const char *last_name; int arg_mismatch; };
extern struct verif_c07_s verif_c07;
int snoopy_filtering_check_chain (char const * const filterChain)
__CPROVER_requires(__CPROVER_r_ok(filterChain, 1))
__CPROVER_assigns(verif_c07)
__CPROVER_ensures(__CPROVER_return_value == 1 || __CPROVER_return_value == 0)
__CPROVER_ensures((__CPROVER_return_value == 0) == (verif_c07.dropped != 0))            /* DROP <=> some consulted filter said DROP */
__CPROVER_ensures(verif_c07.consulted_after_drop == 0 && verif_c07.consulted_unknown == 0 && verif_c07.arg_mismatch == 0);
