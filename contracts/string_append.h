/* C05/C02 — contract of snoopy_util_string_append (src/util/string.c), enforced in its own DFCC run (C05.append.contract).
 * The harness establishes the pre-state (dest holds a string of verif_app.dl bytes in a buffer of verif_app.bufSize bytes,
 * appendThis a string of verif_app.al bytes in a separate object) and records it in verif_app; the postconditions are the
 * property statement: all-or-nothing, result never longer than bufSize-1 bytes plus NUL, refusal only when it would not fit;
 * frame: nothing but the destination buffer is written (the pack-S models of strlen/strcat only read ghost state). */
#pragma once
#include <stddef.h>
struct verif_app_s { size_t bufSize, dl, al; char *dest; };
extern struct verif_app_s verif_app;
int snoopy_util_string_append (char *destString, size_t destStringBufSize, const char *appendThis)
__CPROVER_requires(destString == verif_app.dest && destStringBufSize == verif_app.bufSize)
__CPROVER_assigns(__CPROVER_object_upto(destString, destStringBufSize))
__CPROVER_ensures(__CPROVER_return_value == -1 || __CPROVER_return_value == (int)verif_app.al)
__CPROVER_ensures(__CPROVER_return_value == -1 || verif_app.dl + verif_app.al <= verif_app.bufSize - 1)
__CPROVER_ensures(__CPROVER_return_value != -1 || verif_app.dl + verif_app.al > verif_app.bufSize - 1)
__CPROVER_ensures(__CPROVER_return_value == -1 ==> destString[verif_app.dl] == 0)
__CPROVER_ensures(__CPROVER_return_value != -1 ==> destString[verif_app.dl + verif_app.al] == 0);
