/* C01 — phase contracts of the three callees of the exec interposers, and the contract of the
 * interposers themselves.  Ghost: verif_c01 (phase counter, record of the real call). */
#pragma once
#include <stddef.h>
struct verif_c01_s { int phase;      /* 0 idle, 1 init done, 2 logged, 3 cleaned up */
  int lib_state;                     /* stands for all library-owned state */
  int real_calls; const char *r_f; char *const *r_a; char *const *r_e; int r_has_e; int r_ret, r_errno, r_phase; };
extern struct verif_c01_s verif_c01;
extern int __CPROVER_errno;
void snoopy_entrypoint_execve_wrapper_init (const char *filename, char *const argv[], char *const envp[])
__CPROVER_requires(verif_c01.phase == 0)
__CPROVER_assigns(verif_c01.phase, verif_c01.lib_state)
__CPROVER_ensures(verif_c01.phase == 1);
void snoopy_action_log_syscall_exec (void)
__CPROVER_requires(verif_c01.phase == 1)
__CPROVER_assigns(verif_c01.phase, verif_c01.lib_state)
__CPROVER_ensures(verif_c01.phase == 2);
void snoopy_entrypoint_execve_wrapper_exit (void)
__CPROVER_requires(verif_c01.phase == 2)
__CPROVER_assigns(verif_c01.phase, verif_c01.lib_state)
__CPROVER_ensures(verif_c01.phase == 3);

/* the interposers: nothing but library state, the ghost record and errno (set by the real exec) is written */
int execve (const char *filename, char *const argv[], char *const envp[])
__CPROVER_requires(verif_c01.phase == 0 && verif_c01.real_calls == 0)
__CPROVER_assigns(verif_c01, __CPROVER_errno)
__CPROVER_ensures(verif_c01.real_calls == 1)
__CPROVER_ensures(verif_c01.r_phase == 3)
__CPROVER_ensures(verif_c01.r_f == filename && verif_c01.r_a == argv && verif_c01.r_has_e && verif_c01.r_e == envp)
__CPROVER_ensures(__CPROVER_return_value == verif_c01.r_ret && __CPROVER_errno == verif_c01.r_errno);
int execv (const char *filename, char *const argv[])
__CPROVER_requires(verif_c01.phase == 0 && verif_c01.real_calls == 0)
__CPROVER_assigns(verif_c01, __CPROVER_errno)
__CPROVER_ensures(verif_c01.real_calls == 1)
__CPROVER_ensures(verif_c01.r_phase == 3)
__CPROVER_ensures(verif_c01.r_f == filename && verif_c01.r_a == argv && !verif_c01.r_has_e)
__CPROVER_ensures(__CPROVER_return_value == verif_c01.r_ret && __CPROVER_errno == verif_c01.r_errno);
