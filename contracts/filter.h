/* C02 — the contract of an argument-less / simple filter (one template; the function is chosen with -DVERIF_FILTER_FN=...):
 * reads its argument string, writes nothing but the models' ghost state, answers PASS or DROP. */
#pragma once
#include "verif_ds.h"
extern size_t verif_arg_size;
#define VERIF_FILTER_CONTRACT(fn) \
int fn (char const * const arg) \
__CPROVER_requires(verif_arg_size >= 1 && verif_arg_size <= 4097 && __CPROVER_is_fresh(arg, verif_arg_size) && arg[verif_arg_size - 1] == 0) \
__CPROVER_assigns(VERIF_WORLD_FRAME) \
__CPROVER_ensures(__CPROVER_return_value == 1 || __CPROVER_return_value == 0) \
__CPROVER_ensures(verif_w.fd_open == 0 && verif_w.never == 0);
#ifdef VERIF_FILTER_FN
VERIF_FILTER_CONTRACT(VERIF_FILTER_FN)
#endif
