/* C08/C11 — enforcement contract of snoopy_util_string_toUpper (src/util/string.c), own DFCC run with a loop contract (loops/toupper.json).
 * Same frame as the replacement contract in contracts/string_util.h (bytes of the string's object from s on); the precondition adds
 * what call sites hand over (a terminated string: terminator at verif_up_base[verif_up_len], s inside it), the postcondition that
 * the terminator is still where it was ("keeps it a string of the same object"). */
#pragma once
#include <stddef.h>
extern char *verif_up_base; extern size_t verif_up_len;
void snoopy_util_string_toUpper (char * s)
__CPROVER_requires(__CPROVER_same_object(s, verif_up_base) && s >= verif_up_base && (unsigned long)(s - verif_up_base) <= verif_up_len && verif_up_base[verif_up_len] == 0)
__CPROVER_assigns(__CPROVER_object_from(s))
__CPROVER_ensures(verif_up_base[verif_up_len] == 0);
