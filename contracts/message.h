/* contracts of src/message.c.  snoopy_message_generateFromFormat is ENFORCED in C05.expand.sizes (with the loop contract
 * loops/message.json) and REPLACED by this contract in the output runs (C04/C17). */
#pragma once
#include <stddef.h>
extern size_t verif_fmt_len;      /* ghost: length of the (registered) format string of the run that enforces the contract */
void snoopy_message_generateFromFormat (char * const logMessage, size_t logMessageBufSize, size_t dataSourceMsgMaxLength, char const * const logMessageFormat)
__CPROVER_requires(logMessageBufSize >= 1 && logMessageBufSize <= 1048577 && dataSourceMsgMaxLength >= 1 && dataSourceMsgMaxLength <= 1048576)
__CPROVER_requires(__CPROVER_w_ok(logMessage, logMessageBufSize) && logMessage[0] == 0)
__CPROVER_requires(__CPROVER_r_ok(logMessageFormat, 1))
__CPROVER_assigns(__CPROVER_object_upto(logMessage, logMessageBufSize))
__CPROVER_ensures(1);
void snoopy_message_append (char * logMessage, size_t logMessageBufSize, char const * const appendThis)
__CPROVER_requires(logMessageBufSize >= 1 && __CPROVER_w_ok(logMessage, logMessageBufSize) && __CPROVER_r_ok(appendThis, 1))
__CPROVER_assigns(__CPROVER_object_upto(logMessage, logMessageBufSize))
__CPROVER_ensures(1);
int snoopy_datasourceregistry_doesNameExist (char const * const datasourceName)
__CPROVER_requires(__CPROVER_r_ok(datasourceName, 1))
__CPROVER_assigns()
__CPROVER_ensures(__CPROVER_return_value == 0 || __CPROVER_return_value == 1);
int snoopy_datasourceregistry_callByName (char const * const datasourceName, char * const resultBuf, size_t resultBufSize, char const * const datasourceArg)
__CPROVER_requires(__CPROVER_r_ok(datasourceName, 1) && __CPROVER_r_ok(datasourceArg, 1))
__CPROVER_requires(resultBufSize >= 2 && __CPROVER_w_ok(resultBuf, resultBufSize))
__CPROVER_assigns(__CPROVER_object_upto(resultBuf, resultBufSize))
__CPROVER_ensures(1);
