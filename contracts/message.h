/* contract of snoopy_message_generateFromFormat as seen by its callers (enforced in the C05/C02 runs) */
#pragma once
#include <stddef.h>
void snoopy_message_generateFromFormat (char * const logMessage, size_t logMessageBufSize, size_t dataSourceMsgMaxLength, char const * const logMessageFormat)
__CPROVER_requires(logMessageBufSize >= 1 && __CPROVER_w_ok(logMessage, logMessageBufSize) && logMessage[0] == 0)
__CPROVER_requires(__CPROVER_r_ok(logMessageFormat, 1))
__CPROVER_assigns(__CPROVER_object_upto(logMessage, logMessageBufSize))
__CPROVER_ensures(logMessage[logMessageBufSize - 1] == 0);
