/* contracts of src/util/string.c helpers (each enforced in its own run, replaced at call sites elsewhere) */
#pragma once
#include <stddef.h>
/* upper-cases in place: writes only bytes of the string's object, keeps it a string of the same object */
void snoopy_util_string_toUpper (char * s)
__CPROVER_requires(__CPROVER_r_ok(s, 1))
__CPROVER_assigns(__CPROVER_object_from(s))
__CPROVER_ensures(1);
