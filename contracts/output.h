/* C02/C04/C16 — frame contract of an output (one template, -DVERIF_OUTPUT_FN=...): whatever the message, the argument, the configuration
 * and the behaviour of every I/O call, the output writes NOTHING of the caller's - not the message, not its argument, not the
 * configuration record - only the effect models' ghost state (and its own locals / allocations, which it releases), and it returns. */
#pragma once
#include "verif_effects.h"
#define VERIF_OUTPUT_CONTRACT(fn) \
int fn (char const * const logMessage, char const * const arg) \
__CPROVER_requires(__CPROVER_r_ok(logMessage, 1) && __CPROVER_r_ok(arg, 1)) \
__CPROVER_assigns(VERIF_EFFECTS_FRAME) \
__CPROVER_ensures(__CPROVER_return_value >= -2) \
__CPROVER_ensures(verif_fd_open == 0 && verif_sigmask == verif_sigmask0 && !verif_sig_disposition_changed);
#ifdef VERIF_OUTPUT_FN
VERIF_OUTPUT_CONTRACT(VERIF_OUTPUT_FN)
#endif
