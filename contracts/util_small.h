/* C02/C12/C16 — contracts of the small utilities behind the identity data sources (each enforced in its own DFCC run):
 *  - snoopy_util_pwd_convertUidToUsername: NULL, or a fresh heap block of LOGIN_NAME_MAX+1 bytes holding a terminated string the caller
 *    frees; looks up exactly the uid it was given; nothing else allocated stays allocated; writes nothing of the caller's;
 *  - snoopy_datasource_tty__get_tty_uid: 0 and *ttyUid = owner of the terminal on standard input, or > 0 with a message in resultBuf;
 *  - snoopy_util_utmp_*: read-only on the entry, write only the caller's result buffer. */
#pragma once
#include "verif_ds.h"
#include <limits.h>
#include <utmp.h>
_Bool verif_username_ok(char *r);
char * snoopy_util_pwd_convertUidToUsername (uid_t uid)
__CPROVER_assigns(VERIF_WORLD_FRAME)
__CPROVER_ensures(verif_username_ok(__CPROVER_return_value))
__CPROVER_ensures(verif_w.pw_asked == 1 && verif_w.pw_uid == uid)
__CPROVER_ensures(__CPROVER_return_value != NULL ==> (verif_w.pw_found ? verif_tag_of(__CPROVER_return_value) == T_PWNAME : verif_tag_of(__CPROVER_return_value) == T_FORMATTED));

int snoopy_datasource_tty__get_tty_uid (uid_t * ttyUid, char * const resultBuf, size_t resultBufSize)
__CPROVER_requires(resultBufSize >= 256 && resultBufSize <= 1048577 && __CPROVER_is_fresh(resultBuf, resultBufSize) && __CPROVER_is_fresh(ttyUid, sizeof(*ttyUid)))
__CPROVER_assigns(*ttyUid, __CPROVER_object_upto(resultBuf, resultBufSize), VERIF_WORLD_FRAME)
__CPROVER_ensures(__CPROVER_return_value >= 0)
__CPROVER_ensures(verif_w.tty_fd_asked == 0)
__CPROVER_ensures(__CPROVER_return_value == 0 ==> (verif_w.tty_ok && verif_w.stat_ok && verif_w.stat_tag == T_TTY && *ttyUid == verif_w.tty_uid));

int snoopy_util_utmp_getUtmpIpAddrAsString (struct utmp const * const utmpEntry, char * const resultBuf, size_t resultBufSize)
__CPROVER_requires(resultBufSize >= 256 && resultBufSize <= 1048577 && __CPROVER_is_fresh(resultBuf, resultBufSize) && __CPROVER_is_fresh(utmpEntry, sizeof(*utmpEntry)))
__CPROVER_assigns(__CPROVER_object_upto(resultBuf, resultBufSize), VERIF_WORLD_FRAME)
__CPROVER_ensures(__CPROVER_return_value == 1);
