/* C02/C03/C16 — contract of snoopy_util_file_getSmallTextFileContent (src/util/file.c), the reader behind the cgroup and systemd data
 * sources: for every path string and every behaviour of fopen/fread/feof/ferror/strerror_r (each may fail independently) it hands back,
 * through *contentPtrAddr, a heap string the caller must free - the file's text (return = its length < 10240) or an error text
 * (return -1) - NUL-terminated inside its block; it writes nothing else of the caller's and leaves no stream open. */
#pragma once
#include "verif_ds.h"
extern size_t verif_arg_size;
_Bool verif_file_result_ok(char **contentPtrAddr, int ret);
int snoopy_util_file_getSmallTextFileContent (char const * const filePath, char ** contentPtrAddr)
__CPROVER_requires(verif_arg_size >= 1 && verif_arg_size <= 4097 && __CPROVER_is_fresh(filePath, verif_arg_size) && filePath[verif_arg_size - 1] == 0)
__CPROVER_requires(__CPROVER_is_fresh(contentPtrAddr, sizeof(char *)))
__CPROVER_assigns(*contentPtrAddr, VERIF_WORLD_FRAME)
__CPROVER_ensures(__CPROVER_return_value >= -1 && __CPROVER_return_value < 10240)
__CPROVER_ensures(verif_file_result_ok(contentPtrAddr, __CPROVER_return_value))
__CPROVER_ensures(verif_w.fd_open == 0 && verif_w.never == 0);
