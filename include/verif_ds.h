/* ghost process state of pack E (process-state part, world/packE_ds.c) */
#pragma once
#include "verif_prelude.h"
#include <time.h>
enum { T_NONE = 0, T_PWNAME, T_GRNAME, T_CWD, T_HOSTNAME, T_TTY, T_LOGIN, T_ENVVAL, T_STRFTIME, T_FILELINE, T_IPADDR, T_ARG, T_EXECPATH, T_ARGV, T_ENVIRON, T_FORMATTED, T_LITERAL };
#define VERIF_NTAG 10
#define VERIF_NRS 3
struct verif_rs_s { int in_use, eof, err, path_tag; };
struct verif_sn_s { char *buf; size_t n; const char *fmt; int nargs; verif_arg_t a[5]; int ret; unsigned calls; };   /* the last snprintf call */
struct verif_w_s {
  unsigned uid, euid, gid, egid, tty_uid; int pid, ppid, sid; long ktid; unsigned long ptid; long now, tv_sec, tv_usec;
  int pw_asked, gr_asked; unsigned pw_uid, gr_gid; int tty_fd_asked, stat_tag, login_asked; const char *env_asked; char *env_val;
  int getsid_arg; long syscall_no; const char *strftime_fmt; const void *strftime_tm; const void *localtime_out; int localtime_in_ok;
  int pw_found, gr_found, cwd_ok, host_ok, tty_ok, stat_ok, login_ok, env_found, strftime_ok, time_ok, localtime_ok, tod_ok;   /* which queries succeeded */
  int fd_open; unsigned lines_left; int utmp_open; int never;
  int ntag, tag_overflow; const void *tag_obj[VERIF_NTAG]; int tag[VERIF_NTAG];
  struct verif_rs_s rs[VERIF_NRS];
  struct verif_sn_s sn;
};
extern struct verif_w_s verif_w;
void verif_w_init(void);
void verif_tag(const void *p, int tag);
int verif_tag_of(const void *p);
long verif_syscall1(long no);
#ifndef VERIF_NATIVE
#undef syscall
#define syscall(no) verif_syscall1(no)
#endif
/* everything the models may write, for the assigns clause of a function contract */
extern int __CPROVER_errno;
#define VERIF_WORLD_FRAME verif_w, verif_str, verif_nstr, verif_snprintf_truncated, __CPROVER_errno
