/* helpers for harnesses */
#pragma once
#include "verif_prelude.h"
/* a read-only input string of symbolic length <= maxlen whose first NUL is at that length (size level) */
static inline char *verif_mk_string(size_t maxlen){
  size_t n = nondet_size_t(); __CPROVER_assume(n <= maxlen);
  char *p = malloc(n + 1); __CPROVER_assume(p != 0);
  p[n] = 0; if (n > 0) __CPROVER_assume(p[0] != 0);
  verif_register_string(p, n);
  return p;
}
