/* verif_prelude.h — passed with -include to every goto-cc compilation of a real snoopy
 * translation unit.  It changes NO function body of snoopy.  What it does:
 *  1. includes the system headers first, then re-defines the *variadic* libc entry
 *     points snoopy uses (snprintf fprintf printf sscanf syslog) as macros dispatching
 *     on argument count to fixed-arity model functions (DFCC in cbmc 6.11 mis-instruments
 *     variadic callees; the calls are replaced by libc models anyway);
 *  2. declares the ghost state and model prototypes shared by the model packs.
 */
#pragma once
#ifndef _GNU_SOURCE
#define _GNU_SOURCE 1
#endif
#include <stddef.h>
#include <stdio.h>
#include <stdlib.h>
#include <string.h>
#include <unistd.h>
#include <errno.h>
#ifdef VERIF_SYSLOG_MODEL      /* only for runs that compile syslogoutput.c: pre-including <syslog.h> hides SYSLOG_NAMES-dependent declarations from sources that define that macro themselves */
#include <syslog.h>
#endif
#include <sys/types.h>

#ifdef VERIF_NATIVE
#include "verif_native.h"
#endif
/* ---- tagged argument for the fixed-arity printf family ---------------------------- */
typedef struct { int kind; const char *s; long long i; unsigned long long u; } verif_arg_t; /* kind 0 none 1 string 2 signed 3 unsigned */
static inline verif_arg_t verif_arg_s(const char *s){ verif_arg_t a; a.kind=1; a.s=s; a.i=0; a.u=0; return a; }
static inline verif_arg_t verif_arg_i(long long i){ verif_arg_t a; a.kind=2; a.s=0; a.i=i; a.u=0; return a; }
static inline verif_arg_t verif_arg_u(unsigned long long u){ verif_arg_t a; a.kind=3; a.s=0; a.i=0; a.u=u; return a; }
static inline verif_arg_t verif_arg_none(void){ verif_arg_t a; a.kind=0; a.s=0; a.i=0; a.u=0; return a; }
#define VERIF_ARG(x) _Generic((x) + 0, char*: verif_arg_s, const char*: verif_arg_s, \
      unsigned long: verif_arg_u, unsigned long long: verif_arg_u, default: verif_arg_i)(x)
#define VERIF_NONE verif_arg_none()

/* one core per family; every pack defines these */
int verif_snprintf_core(char *buf, size_t n, const char *fmt, int nargs, verif_arg_t a0, verif_arg_t a1, verif_arg_t a2, verif_arg_t a3, verif_arg_t a4);
int verif_fprintf_core(FILE *fp, const char *fmt, int nargs, verif_arg_t a0, verif_arg_t a1, verif_arg_t a2);
int verif_sscanf2(const char *str, const char *fmt, void *p0, void *p1);
void verif_syslog1(int prio, const char *fmt, verif_arg_t a0);

#define VERIF_SEL6(_0,_1,_2,_3,_4,_5,NAME,...) NAME
#define VERIF_SN0(b,n,f)           verif_snprintf_core(b,n,f,0,VERIF_NONE,VERIF_NONE,VERIF_NONE,VERIF_NONE,VERIF_NONE)
#define VERIF_SN1(b,n,f,a)         verif_snprintf_core(b,n,f,1,VERIF_ARG(a),VERIF_NONE,VERIF_NONE,VERIF_NONE,VERIF_NONE)
#define VERIF_SN2(b,n,f,a,c)       verif_snprintf_core(b,n,f,2,VERIF_ARG(a),VERIF_ARG(c),VERIF_NONE,VERIF_NONE,VERIF_NONE)
#define VERIF_SN3(b,n,f,a,c,d)     verif_snprintf_core(b,n,f,3,VERIF_ARG(a),VERIF_ARG(c),VERIF_ARG(d),VERIF_NONE,VERIF_NONE)
#define VERIF_SN4(b,n,f,a,c,d,e)   verif_snprintf_core(b,n,f,4,VERIF_ARG(a),VERIF_ARG(c),VERIF_ARG(d),VERIF_ARG(e),VERIF_NONE)
#define VERIF_SN5(b,n,f,a,c,d,e,g) verif_snprintf_core(b,n,f,5,VERIF_ARG(a),VERIF_ARG(c),VERIF_ARG(d),VERIF_ARG(e),VERIF_ARG(g))
#ifndef VERIF_NATIVE
#undef snprintf
#define snprintf(b,n,...) VERIF_SEL6(__VA_ARGS__,VERIF_SN5,VERIF_SN4,VERIF_SN3,VERIF_SN2,VERIF_SN1,VERIF_SN0)(b,n,__VA_ARGS__)

#define VERIF_SEL4(_0,_1,_2,_3,NAME,...) NAME
#define VERIF_FP0(p,f)       verif_fprintf_core(p,f,0,VERIF_NONE,VERIF_NONE,VERIF_NONE)
#define VERIF_FP1(p,f,a)     verif_fprintf_core(p,f,1,VERIF_ARG(a),VERIF_NONE,VERIF_NONE)
#define VERIF_FP2(p,f,a,c)   verif_fprintf_core(p,f,2,VERIF_ARG(a),VERIF_ARG(c),VERIF_NONE)
#define VERIF_FP3(p,f,a,c,d) verif_fprintf_core(p,f,3,VERIF_ARG(a),VERIF_ARG(c),VERIF_ARG(d))
#undef fprintf
#define fprintf(p,...) VERIF_SEL4(__VA_ARGS__,VERIF_FP3,VERIF_FP2,VERIF_FP1,VERIF_FP0)(p,__VA_ARGS__)
#undef printf
#define printf(...) VERIF_SEL4(__VA_ARGS__,VERIF_FP3,VERIF_FP2,VERIF_FP1,VERIF_FP0)(stdout,__VA_ARGS__)
#undef sscanf
#define sscanf(s,f,p0,p1) verif_sscanf2(s,f,(void*)(p0),(void*)(p1))
#ifdef VERIF_SYSLOG_MODEL
#undef syslog
#define syslog(p,f,a) verif_syslog1(p,f,VERIF_ARG(a))
#endif
#endif /* !VERIF_NATIVE */

/* ---- ghost state shared by packs and harnesses ------------------------------------ */
/* registered read-only input strings: object + exact length (first NUL) */
#define VERIF_NSTR 8
typedef struct { const char *obj; size_t len; } verif_str_t;
extern verif_str_t verif_str[VERIF_NSTR];
extern int verif_nstr;
void verif_register_string(const char *p, size_t len);
void verif_ghost_init(void);
extern int verif_snprintf_truncated, verif_snprintf_register;
void verif_set_string(const char *p, size_t len);

/* nondeterminism */
int nondet_int(void); unsigned nondet_uint(void); size_t nondet_size_t(void); long nondet_long(void);
char nondet_char(void); _Bool nondet_bool(void); unsigned long nondet_ulong(void);

#ifdef VERIF_CANARY_OFF
#define VERIF_CANARY() ((void)0)
#else
#define VERIF_CANARY() __CPROVER_assert(0, "canary: end of harness reachable")
#endif

/* glibc implements the <ctype.h> predicates as table-lookup macros; use the function forms
   (cbmc's library gives them loop-free bodies) */
#include <ctype.h>
#ifndef VERIF_NATIVE
#undef isdigit
#undef isspace
#undef isalpha
#undef isalnum
#undef toupper
#undef tolower
#undef isupper
#undef islower
#endif /* ctype */

/* open(2) is variadic: fixed-arity model (same DFCC reason as snprintf) */
#include <fcntl.h>
int verif_open3(const char *path, int flags, unsigned mode);
#define VERIF_SEL3(_0,_1,_2,NAME,...) NAME
#define VERIF_OP2(p,f)   verif_open3(p,f,0)
#define VERIF_OP3(p,f,m) verif_open3(p,f,(unsigned)(m))
#ifndef VERIF_NATIVE
#undef open
#define open(p,...) VERIF_SEL3(p,__VA_ARGS__,VERIF_OP3,VERIF_OP2)(p,__VA_ARGS__)
#endif
