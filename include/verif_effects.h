/* ghost effect trace and resources of pack E (library part) */
#pragma once
#include "verif_prelude.h"
enum { EV_NONE = 0, EV_OPEN, EV_WRITE, EV_CLOSE, EV_SOCKET, EV_CONNECT, EV_SEND, EV_STDIO_PUT, EV_STDIO_FLUSH, EV_SETVBUF };
typedef struct { int kind; int fd; const void *ptr; size_t len; int flags; int ok; } verif_ev_t;
#define VERIF_NEV 12
extern verif_ev_t verif_ev[VERIF_NEV];
extern int verif_nev;
extern int verif_fd_open;                 /* descriptors opened minus closed */
extern int verif_fail_mode;               /* 1: every call may fail nondeterministically */
extern const char *verif_msg; extern size_t verif_msg_len; extern size_t verif_msg_idx;   /* the record being emitted; ghost index for content checks */
extern int verif_content_ok;              /* all bytes handed to the OS so far matched the expected record at the ghost index */
extern size_t verif_stdio_cap;            /* capacity of a stdio buffer (symbolic, as glibc picks st_blksize) */
extern size_t verif_pending_stdout;       /* bytes sitting in stdout's user-space buffer */
extern unsigned long verif_sigmask, verif_sigmask0; extern int verif_sig_disposition_changed;   /* ghost: blocked-signal set now / at entry */
#define VERIF_ASSERT_SIGNALS_UNTOUCHED() __CPROVER_assert(verif_sigmask == verif_sigmask0 && !verif_sig_disposition_changed, "output: the signal mask and the signal handlers are as the caller left them (for every mask the caller may have)")
typedef struct { int in_use, std, fd, append, failed, nonblock; size_t pending, cap; } vstream_t;
#define NS 5
#define vs verif_vs
extern vstream_t vs[NS]; extern int verif_sock_fd, verif_sock_nonblock, verif_sock_open, verif_nsend; extern const void *verif_sigact_saved;
extern int __CPROVER_errno;
/* everything the effect models may write, for the assigns clause of an output's contract */
#define VERIF_EFFECTS_FRAME verif_ev, verif_nev, verif_fd_open, verif_content_ok, verif_pending_stdout, verif_vs, verif_sock_fd, verif_sock_nonblock, verif_sock_open, verif_nsend, \
  verif_sigmask, verif_sig_disposition_changed, verif_sigact_saved, verif_str, verif_nstr, verif_snprintf_truncated, __CPROVER_errno
void verif_effects_init(const char *msg, size_t len, int fail_mode);
