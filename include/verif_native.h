/* native (gcc, real glibc, sanitizers) build of a harness for counterexample replay: cbmc primitives become runtime checks,
   nondet_* read the values cbmc chose from a tape written by the replayer */
#pragma once
#include <stdio.h>
#include <stdlib.h>
#include <string.h>
extern int verif_native_failed;
#define __CPROVER_assert(c, msg) do { if (!(c)) { printf("ASSERTION VIOLATED on the real code: %s\n", msg); verif_native_failed = 1; } } while (0)
#define __CPROVER_assume(c) do { if (!(c)) { printf("input rejected by assumption: %s\n", #c); exit(verif_native_failed ? 1 : 77); } } while (0)
#define __CPROVER_r_ok(p, n) 1
#define __CPROVER_w_ok(p, n) 1
#define __CPROVER_havoc_slice(p, n) ((void)0)
#define __CPROVER_same_object(a, b) 0
#define __CPROVER_OBJECT_SIZE(p) ((size_t)0)
#define __CPROVER_POINTER_OFFSET(p) ((long)0)
/* nondet_*() are ordinary functions defined by the replayer (tape in counterexample order) */
