/* ghost state of the pthread model (world/packE_thread.c) */
#pragma once
#include <pthread.h>
#include "tsrm.h"
#include "util/list-snoopy.h"
extern list_t snoopy_tsrm_threadRepo_data; extern list_t *snoopy_tsrm_threadRepo; extern pthread_mutex_t snoopy_tsrm_threadRepo_mutex; extern pthread_once_t snoopy_tsrm_init_onceControl;
extern int verif_depth;            /* recursion depth of the repository mutex */
extern pthread_t verif_owner;      /* its owner while depth > 0 */
extern pthread_t verif_self;       /* the calling thread */
extern int verif_once_done, verif_mutex_inited, verif_mutex_recursive;
extern int verif_capability;       /* 1: the repository pointer is valid only while the lock is held (lock-discipline runs) */
extern int verif_interference;     /* 1: other threads add/remove their own entries whenever the lock is free (rely) */
extern listNode_t *verif_my_node;  /* ghost: my own repository entry */
extern void (*verif_atfork_child[2])(void); extern int verif_n_atfork;
void verif_thread_init(void);
void verif_interfere(void);
