/* ini_parse is outside the runs that link this stub (the INI grammar has its own run) */
#include "lib/inih/src/ini.h"
int ini_parse(const char *f, ini_handler h, void *u){ (void)f; (void)h; (void)u; return -1; }
