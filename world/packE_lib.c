/* Pack E (library part) — effects: stdio streams, descriptors, sockets.  Each model
 *  (a) may fail nondeterministically wherever the real call can (when verif_fail_mode is set),
 *  (b) appends to the ghost effect trace and maintains ghost resources (descriptor balance, stdio pending bytes),
 *  (c) asserts the discipline the properties need as model preconditions (non-blocking flags, append mode, valid stream).
 * stdio buffering follows glibc: a write larger than the remaining buffer space reaches the descriptor in more than
 * one write(2); stderr is unbuffered; stdout (pipe/file) is fully buffered until fflush/exit — exec does not flush.
 */
#include "verif_effects.h"
#include <sys/socket.h>
#include <sys/un.h>
verif_ev_t verif_ev[VERIF_NEV]; int verif_nev; int verif_fd_open; int verif_fail_mode;
const char *verif_msg; size_t verif_msg_len; size_t verif_msg_idx; int verif_content_ok;
size_t verif_stdio_cap; size_t verif_pending_stdout;
vstream_t vs[NS];              /* (named verif_vs through a macro: not static, so that a contract's assigns clause can list it) */
int verif_sock_fd, verif_sock_nonblock, verif_sock_open, verif_nsend;
const void *verif_sigact_saved;

static void ev(int kind, int fd, const void *p, size_t len, int flags, int ok){
  __CPROVER_assert(verif_nev < VERIF_NEV, "effect trace: fewer than 12 effects per call");
  if (verif_nev < VERIF_NEV) { verif_ev[verif_nev].kind = kind; verif_ev[verif_nev].fd = fd; verif_ev[verif_nev].ptr = p; verif_ev[verif_nev].len = len; verif_ev[verif_nev].flags = flags; verif_ev[verif_nev].ok = ok; verif_nev++; }
}
static _Bool may_fail(void){ return verif_fail_mode && nondet_bool(); }
void verif_effects_init(const char *msg, size_t len, int fail_mode){
  verif_nev = 0; verif_fd_open = 0; verif_fail_mode = fail_mode; verif_msg = msg; verif_msg_len = len; verif_content_ok = 1;
  verif_msg_idx = nondet_size_t(); __CPROVER_assume(len == 0 || verif_msg_idx < len);
  verif_stdio_cap = nondet_size_t(); __CPROVER_assume(verif_stdio_cap >= 1 && verif_stdio_cap <= 65536);   /* glibc: st_blksize, typically 4096 */
  verif_pending_stdout = 0; verif_sock_open = 0; verif_nsend = 0;
  verif_sigmask0 = nondet_ulong(); verif_sigmask = verif_sigmask0; verif_sig_disposition_changed = 0; verif_sigact_saved = 0;
  for (int i = 0; i < NS; i++) { vs[i].in_use = 0; vs[i].std = 0; vs[i].fd = 3 + i; vs[i].append = 0; vs[i].nonblock = 0; vs[i].failed = 0; vs[i].pending = 0; vs[i].cap = verif_stdio_cap; }
  vs[0].in_use = 1; vs[0].std = 1; vs[0].fd = 1; vs[1].in_use = 1; vs[1].std = 2; vs[1].fd = 2; vs[1].cap = 0;   /* stderr unbuffered */
  stdout = (FILE *)&vs[0]; stderr = (FILE *)&vs[1];
}
static vstream_t *S(FILE *fp){
  vstream_t *s = (vstream_t *)fp;
  __CPROVER_assert(s == &vs[0] || s == &vs[1] || s == &vs[2] || s == &vs[3] || s == &vs[4], "stdio: argument is a stream returned by fopen (not NULL, not closed)");
  __CPROVER_assert(s->in_use, "stdio: stream is open");
  return s;
}
/* the bytes [p, p+n) reach descriptor fd in ONE write(2); check them against the expected record at the ghost index */
static void os_write(int fd, const char *p, size_t n, size_t rec_off){
  ev(EV_WRITE, fd, p, n, 0, 1);
  if (verif_msg && p != 0) {
    size_t i = verif_msg_idx;
    if (i >= rec_off && i < rec_off + n && i < verif_msg_len) { if (p[i - rec_off] != verif_msg[i]) verif_content_ok = 0; }
    if (verif_msg_len >= rec_off && verif_msg_len < rec_off + n) { if (p[verif_msg_len - rec_off] != '\n') verif_content_ok = 0; }
  }
}
/* ---- descriptors ---- */
int verif_open3(const char *path, int flags, unsigned mode){
  (void)mode; (void)strlen(path);
  if (may_fail()) { errno = nondet_int(); __CPROVER_assume(errno > 0 && errno < 134); ev(EV_OPEN, -1, path, 0, flags, 0); return -1; }   /* any errno: ENOENT, EEXIST, EACCES, ENOSPC ... */
  int fd = -1; for (int i = 2; i < NS; i++) if (!vs[i].in_use) { vs[i].in_use = 1; vs[i].std = 0; vs[i].append = (flags & O_APPEND) != 0; vs[i].nonblock = (flags & O_NONBLOCK) != 0; vs[i].failed = 0; vs[i].pending = 0; vs[i].cap = 0; fd = vs[i].fd; break; }
  __CPROVER_assert(fd != -1, "model: at most three files open at once");
  verif_fd_open++; ev(EV_OPEN, fd, path, 0, flags, 1);
  return fd;
}
static vstream_t *F(int fd){ for (int i = 2; i < NS; i++) if (vs[i].in_use && vs[i].fd == fd) return &vs[i]; return 0; }
ssize_t write(int fd, const void *buf, size_t n){
  __CPROVER_assert(n == 0 || __CPROVER_r_ok(buf, n), "write: the n bytes handed to the OS are readable");
  if (verif_sock_open && fd == verif_sock_fd) { __CPROVER_assert(0, "write on a socket: use send() with MSG_DONTWAIT|MSG_NOSIGNAL (would block / raise SIGPIPE)"); return -1; }
  vstream_t *s = F(fd);
  __CPROVER_assert(s != 0 || fd == 1 || fd == 2, "write: descriptor is open");
  if (may_fail()) { errno = ENOSPC; ev(EV_WRITE, fd, buf, n, 0, 0); return -1; }
  if (s && s->nonblock && n > 1 && nondet_bool()) {       /* O_NONBLOCK descriptor on a pipe/tty with little room: the kernel takes only what fits */
    size_t k = nondet_size_t(); __CPROVER_assume(k >= 1 && k < n);
    os_write(fd, buf, k, 0); return (ssize_t)k;
  }
  os_write(fd, buf, n, 0);
  return (ssize_t)n;
}
int close(int fd){
  if (verif_sock_open && fd == verif_sock_fd) { verif_sock_open = 0; verif_fd_open--; ev(EV_CLOSE, fd, 0, 0, 0, 1); return 0; }
  vstream_t *s = F(fd);
  __CPROVER_assert(s != 0, "close: descriptor is open (no double close)");
  if (s) { s->in_use = 0; verif_fd_open--; }
  ev(EV_CLOSE, fd, 0, 0, 0, 1);
  return may_fail() ? -1 : 0;
}
/* ---- stdio ---- */
FILE *fopen(const char *path, const char *mode){
  (void)strlen(path);
  if (may_fail()) { errno = nondet_bool() ? ENOENT : EACCES; ev(EV_OPEN, -1, path, 0, 0, 0); return 0; }
  vstream_t *s = 0; for (int i = 2; i < NS; i++) if (!vs[i].in_use) { s = &vs[i]; break; }
  __CPROVER_assert(s != 0, "model: at most three files open at once");
  s->in_use = 1; s->std = 0; s->failed = 0; s->nonblock = 0; s->pending = 0; s->cap = verif_stdio_cap; s->append = (mode[0] == 'a');
  int fl = mode[0] == 'a' ? (O_WRONLY | O_CREAT | O_APPEND) : mode[0] == 'w' ? (O_WRONLY | O_CREAT | O_TRUNC) : O_RDONLY;
  if (mode[1] == '+' || (mode[1] && mode[2] == '+')) fl = (fl & ~(O_WRONLY | O_RDONLY)) | O_RDWR;
  verif_fd_open++; ev(EV_OPEN, s->fd, path, 0, fl, 1);
  return (FILE *)s;
}
int setvbuf(FILE *fp, char *buf, int mode, size_t size){
  vstream_t *s = S(fp); (void)buf;
  s->cap = (mode == _IONBF) ? 0 : size; ev(EV_SETVBUF, s->fd, buf, size, mode, 1);
  return 0;
}
static int stdio_flush(vstream_t *s){
  if (s->pending > 0) {
    if (may_fail()) { s->failed = 1; s->pending = 0; errno = ENOSPC; ev(EV_WRITE, s->fd, 0, 0, 0, 0); return -1; }
    ev(EV_WRITE, s->fd, 0, s->pending, 0, 1); s->pending = 0;
  }
  if (s->std == 1) verif_pending_stdout = 0;
  return 0;
}
/* n bytes (already formatted; first byte is record offset rec_off) enter stream s */
static int stdio_put(vstream_t *s, const char *p, size_t n, size_t rec_off){
  ev(EV_STDIO_PUT, s->fd, p, n, 0, 1);
  if (s->cap == 0) {                       /* unbuffered: vfprintf formats through an 8 KiB helper buffer, fwrite/fputs write directly */
    if (may_fail()) { s->failed = 1; errno = ENOSPC; ev(EV_WRITE, s->fd, 0, 0, 0, 0); return -1; }
    os_write(s->fd, p, n, rec_off); return 0;
  }
  if (s->pending + n <= s->cap) { s->pending += n; if (s->std == 1) verif_pending_stdout = s->pending; return 0; }
  /* does not fit: glibc fills/flushes and writes whole blocks directly, the rest stays buffered => more than one write(2) for this data */
  if (may_fail()) { s->failed = 1; errno = ENOSPC; ev(EV_WRITE, s->fd, 0, 0, 0, 0); return -1; }
  size_t first = nondet_size_t(); __CPROVER_assume(first >= 1 && first < s->pending + n);
  ev(EV_WRITE, s->fd, 0, first, 0, 1);
  s->pending = s->pending + n - first; if (s->std == 1) verif_pending_stdout = s->pending;
  return 0;
}
int verif_fprintf_core(FILE *fp, const char *fmt, int nargs, verif_arg_t a0, verif_arg_t a1, verif_arg_t a2){
  vstream_t *s = S(fp); (void)a1; (void)a2;
  if (nargs == 1 && a0.kind == 1 && fmt[0] == '%' && fmt[1] == 's' && fmt[2] == '\n' && fmt[3] == 0) {
    size_t l = strlen(a0.s);
    /* the record "<msg>\n": faithful by construction iff the argument IS the message */
    if (verif_msg && a0.s != verif_msg) verif_content_ok = 0;
    if (stdio_put(s, 0, l + 1, 0) < 0) return -1;
    __CPROVER_assume(l + 1 <= 2147483647); return (int)(l + 1);
  }
  if (nargs == 1 && a0.kind == 1 && fmt[0] == '%' && fmt[1] == 's' && fmt[2] == 0) {
    size_t l = strlen(a0.s);
    if (verif_msg && a0.s != verif_msg) verif_content_ok = 0;
    if (stdio_put(s, 0, l, 0) < 0) return -1;
    __CPROVER_assume(l <= 2147483647); return (int)l;
  }
  verif_content_ok = 0;                    /* some other format: not the byte-for-byte record */
  size_t l = nondet_size_t(); __CPROVER_assume(l <= 4096);
  if (stdio_put(s, 0, l, 0) < 0) return -1;
  return (int)l;
}
size_t fwrite(const void *p, size_t sz, size_t n, FILE *fp){
  vstream_t *s = S(fp); size_t tot = sz * n;
  __CPROVER_assert(tot == 0 || __CPROVER_r_ok(p, tot), "fwrite: data readable");
  if (stdio_put(s, p, tot, 0) < 0) return 0;
  if (s->cap != 0 && verif_msg) { size_t i = verif_msg_idx; const char *c = p; if (i < tot && i < verif_msg_len && c[i] != verif_msg[i]) verif_content_ok = 0; if (verif_msg_len < tot && c[verif_msg_len] != '\n') verif_content_ok = 0; }
  return n;
}
int fputs(const char *str, FILE *fp){ vstream_t *s = S(fp); size_t l = strlen(str); if (verif_msg && str != verif_msg) verif_content_ok = 0; return stdio_put(s, 0, l, 0) < 0 ? -1 : 1; }
int fputc(int c, FILE *fp){ vstream_t *s = S(fp); char ch = (char)c; (void)ch; if (verif_msg && c != '\n') verif_content_ok = 0; return stdio_put(s, 0, 1, verif_msg_len) < 0 ? -1 : c; }
int fflush(FILE *fp){ if (fp == 0) { stdio_flush(&vs[0]); return 0; } return stdio_flush(S(fp)); }
int fclose(FILE *fp){
  vstream_t *s = S(fp); __CPROVER_assert(!s->std, "fclose: standard streams stay open");
  int r = stdio_flush(s); s->in_use = 0; verif_fd_open--; ev(EV_CLOSE, s->fd, 0, 0, 0, 1);
  return r;
}
int fileno(FILE *fp){ return S(fp)->fd; }
/* ---- sockets ---- */
int socket(int dom, int type, int proto){
  (void)proto;
  __CPROVER_assert(dom == AF_LOCAL, "socket: local datagram socket");
  __CPROVER_assert((type & SOCK_NONBLOCK) && (type & SOCK_CLOEXEC), "socket: created SOCK_NONBLOCK|SOCK_CLOEXEC (never blocks on a full queue, never leaks into the exec'd program)");
  if (may_fail()) { errno = EMFILE; ev(EV_SOCKET, -1, 0, 0, type, 0); return -1; }
  __CPROVER_assert(!verif_sock_open, "model: one socket at a time");
  verif_sock_fd = 9; verif_sock_open = 1; verif_sock_nonblock = (type & SOCK_NONBLOCK) != 0; verif_fd_open++;
  ev(EV_SOCKET, verif_sock_fd, 0, 0, type, 1);
  return verif_sock_fd;
}
int connect(int fd, const struct sockaddr *a, socklen_t l){
  __CPROVER_assert(verif_sock_open && fd == verif_sock_fd, "connect: on the open socket");
  __CPROVER_assert(l >= sizeof(sa_family_t) && l <= sizeof(struct sockaddr_un) && __CPROVER_r_ok(a, l), "connect: address length inside sockaddr_un");
  if (may_fail()) { errno = nondet_int(); __CPROVER_assume(errno > 0 && errno < 134); ev(EV_CONNECT, fd, a, l, 0, 0); return -1; }   /* any errno: ENOENT, ECONNREFUSED, EPROTOTYPE (stream listener), EAGAIN ... */
  ev(EV_CONNECT, fd, a, l, 0, 1); return 0;
}
ssize_t send(int fd, const void *buf, size_t n, int flags){
  __CPROVER_assert(verif_sock_open && fd == verif_sock_fd, "send: on the open socket");
  __CPROVER_assert(flags & MSG_NOSIGNAL, "send: MSG_NOSIGNAL (no SIGPIPE because of logging)");
  __CPROVER_assert((flags & MSG_DONTWAIT) || verif_sock_nonblock, "send: MSG_DONTWAIT or non-blocking socket (a full, unread queue must not block)");
  __CPROVER_assert(n == 0 || __CPROVER_r_ok(buf, n), "send: datagram bytes readable");
  __CPROVER_assert(verif_nsend == 0, "send: at most one attempt per record (no retry loop on a sink that is not being read)"); verif_nsend++;
  if (may_fail()) { errno = nondet_bool() ? EAGAIN : (nondet_bool() ? EINTR : ENOBUFS); ev(EV_SEND, fd, buf, n, flags, 0); return -1; }
  ev(EV_SEND, fd, buf, n, flags, 1);
  if (verif_msg && buf != 0) { size_t i = verif_msg_idx; const char *c = buf; if (i < n && i < verif_msg_len && c[i] != verif_msg[i]) verif_content_ok = 0; }
  return (ssize_t)n;
}
ssize_t sendto(int fd, const void *b, size_t n, int fl, const struct sockaddr *a, socklen_t l){ (void)a; (void)l; return send(fd, b, n, fl); }
/* ---- signal mask and dispositions: ghost copy of the calling thread's blocked set (arbitrary at entry) ---- */
#include <signal.h>
unsigned long verif_sigmask, verif_sigmask0; int verif_sig_disposition_changed;
int sigemptyset(sigset_t *s){ __CPROVER_assert(__CPROVER_w_ok(s, sizeof(*s)), "sigemptyset: set writable"); s->__val[0] = 0; return 0; }
int sigfillset(sigset_t *s){ __CPROVER_assert(__CPROVER_w_ok(s, sizeof(*s)), "sigfillset: set writable"); s->__val[0] = ~0ul; return 0; }
int sigaddset(sigset_t *s, int sig){ if (sig < 1 || sig > 64) { errno = EINVAL; return -1; } s->__val[0] |= 1ul << (sig - 1); return 0; }
int sigdelset(sigset_t *s, int sig){ if (sig < 1 || sig > 64) { errno = EINVAL; return -1; } s->__val[0] &= ~(1ul << (sig - 1)); return 0; }
int sigismember(const sigset_t *s, int sig){ if (sig < 1 || sig > 64) { errno = EINVAL; return -1; } return (s->__val[0] >> (sig - 1)) & 1; }
static int verif_setmask(int how, const sigset_t *set, sigset_t *old){
  if (old) { __CPROVER_assert(__CPROVER_w_ok(old, sizeof(*old)), "sigmask: old set writable"); old->__val[0] = verif_sigmask; }
  if (set) { unsigned long m = set->__val[0];
    if (how == SIG_BLOCK) verif_sigmask |= m; else if (how == SIG_UNBLOCK) verif_sigmask &= ~m; else if (how == SIG_SETMASK) verif_sigmask = m; else return EINVAL; }
  return 0;
}
int pthread_sigmask(int how, const sigset_t *set, sigset_t *old){ return verif_setmask(how, set, old); }
int sigprocmask(int how, const sigset_t *set, sigset_t *old){ int r = verif_setmask(how, set, old); if (r) { errno = r; return -1; } return 0; }
int sigpending(sigset_t *s){ s->__val[0] = nondet_ulong(); return 0; }
int sigtimedwait(const sigset_t *s, siginfo_t *info, const struct timespec *to){ (void)s; (void)info; (void)to; if (nondet_bool()) { errno = EAGAIN; return -1; } return SIGPIPE; }
int sigaction(int sig, const struct sigaction *act, struct sigaction *old){
  (void)sig;
  if (old) { __CPROVER_havoc_object(old); verif_sigact_saved = old; }
  if (act) verif_sig_disposition_changed = (act != verif_sigact_saved);     /* putting back exactly what was saved restores the caller's disposition */
  return 0;
}
__sighandler_t signal(int sig, __sighandler_t h){ (void)sig; (void)h; verif_sig_disposition_changed = 1; return SIG_DFL; }
/* ---- must never be reached on the logging path ---- */
#define NEVER(name, proto, ret) proto { __CPROVER_assert(0, name ": must not be called on the logging path (would alter or end the calling process)"); ret; }
NEVER("exit", void exit(int s), (void)s; __CPROVER_assume(0))
NEVER("_exit", void _exit(int s), (void)s; __CPROVER_assume(0))
NEVER("abort", void abort(void), __CPROVER_assume(0))
NEVER("raise", int raise(int s), (void)s; return 0)
NEVER("kill", int kill(pid_t p, int s), (void)p; (void)s; return 0)
NEVER("setenv", int setenv(const char *n, const char *v, int o), (void)n; (void)v; (void)o; return 0)
NEVER("putenv", int putenv(char *s), (void)s; return 0)
NEVER("unsetenv", int unsetenv(const char *n), (void)n; return 0)
NEVER("clearenv", int clearenv(void), return 0)
NEVER("chdir", int chdir(const char *p), (void)p; return 0)
NEVER("umask", mode_t umask(mode_t m), (void)m; return 0)
NEVER("sleep", unsigned sleep(unsigned s), (void)s; return 0)
#include <poll.h>
#include <sys/select.h>
#include <time.h>
#define WAITS(name, proto, ret) proto { __CPROVER_assert(0, name ": the logging path must not wait for a sink or a timer (the caller's exec would be delayed for as long as the sink stays unread)"); ret; }
WAITS("poll", int poll(struct pollfd *f, nfds_t n, int t), (void)f; (void)n; (void)t; return nondet_int())
WAITS("select", int select(int n, fd_set *r, fd_set *w, fd_set *e, struct timeval *t), (void)n; (void)r; (void)w; (void)e; (void)t; return nondet_int())
WAITS("nanosleep", int nanosleep(const struct timespec *a, struct timespec *b), (void)a; (void)b; return 0)
WAITS("usleep", int usleep(useconds_t u), (void)u; return 0)
NEVER("alarm", unsigned alarm(unsigned s), (void)s; return 0)
