/* Pack E (process-state part) — models of everything the data sources, the tty/pwd/utmp/file utilities and the
 * simple filters ask the operating system: identity, ids' names, cwd, host name, terminal, login, environment, clock,
 * read-side stdio, utmp.  Each model
 *  (a) checks the caller's buffer/size arguments (__CPROVER_w_ok over the size the caller claims),
 *  (b) may fail wherever the real call can (every failure independently of every other),
 *  (c) returns DISTINCT symbolic values for distinct sources (verif_w.uid != euid != gid != egid, pid != ppid != sid ...)
 *      and tags every string it produces (ghost taint table) so that a harness can tell which source a result came from,
 *  (d) records what it was asked (which uid was looked up, which descriptor's terminal, which variable).
 * All ghost state lives in ONE object, verif_w, so that a function contract can name it in its assigns clause.
 */
#include "verif_ds.h"
#include <sys/stat.h>
#include <sys/time.h>
#include <sys/syscall.h>
#include <time.h>
#include <pwd.h>
#include <grp.h>
#include <utmp.h>
#include <pthread.h>
#include <limits.h>
#include <arpa/inet.h>
struct verif_w_s verif_w;
char **environ;

static _Bool wfail(void){ return nondet_bool(); }
void verif_tag(const void *p, int tag){
  for (int i = 0; i < VERIF_NTAG; i++) if (i < verif_w.ntag && __CPROVER_same_object(verif_w.tag_obj[i], p)) { verif_w.tag[i] = tag; return; }
  if (verif_w.ntag < VERIF_NTAG) { verif_w.tag_obj[verif_w.ntag] = p; verif_w.tag[verif_w.ntag] = tag; verif_w.ntag++; }
  else verif_w.tag_overflow = 1;
}
int verif_tag_of(const void *p){
  for (int i = 0; i < VERIF_NTAG; i++) if (i < verif_w.ntag && __CPROVER_same_object(verif_w.tag_obj[i], p)) return verif_w.tag[i];
  return T_NONE;
}
/* a terminated string of symbolic length < n is stored in [buf, buf+n) */
static size_t put_string(char *buf, size_t n, size_t maxlen, int tag){
  size_t l = nondet_size_t(); __CPROVER_assume(l < n && l <= maxlen);
  __CPROVER_havoc_slice(buf, n);
  buf[l] = 0; if (l > 0) __CPROVER_assume(buf[0] != 0);
  verif_set_string(buf, l); verif_tag(buf, tag);
  return l;
}
void verif_w_init(void){
  verif_w.ntag = 0; verif_w.tag_overflow = 0;
  verif_w.uid = nondet_uint(); verif_w.euid = nondet_uint(); verif_w.gid = nondet_uint(); verif_w.egid = nondet_uint(); verif_w.tty_uid = nondet_uint();
  verif_w.pid = nondet_int(); verif_w.ppid = nondet_int(); verif_w.sid = nondet_int(); verif_w.ktid = nondet_long(); verif_w.ptid = nondet_ulong();
  __CPROVER_assume(verif_w.pid >= 1 && verif_w.ppid >= 0 && verif_w.sid >= 1 && verif_w.ktid >= 1 && verif_w.ktid <= 4194304);
  /* pairwise distinct: a data source that asks the wrong question gives a visibly wrong answer */
  __CPROVER_assume(verif_w.uid != verif_w.euid && verif_w.uid != verif_w.gid && verif_w.uid != verif_w.egid && verif_w.euid != verif_w.gid && verif_w.euid != verif_w.egid && verif_w.gid != verif_w.egid);
  __CPROVER_assume(verif_w.tty_uid != verif_w.uid && verif_w.tty_uid != verif_w.euid && verif_w.tty_uid != verif_w.gid && verif_w.tty_uid != verif_w.egid);
  __CPROVER_assume(verif_w.pid != verif_w.ppid && verif_w.pid != verif_w.sid && verif_w.ppid != verif_w.sid && (long)verif_w.pid != verif_w.ktid && (long)verif_w.ppid != verif_w.ktid && (long)verif_w.sid != verif_w.ktid);
  __CPROVER_assume(verif_w.ptid != 0 && verif_w.ptid != (unsigned long)verif_w.ktid && verif_w.ptid != (unsigned long)verif_w.pid);
  verif_w.now = nondet_long(); verif_w.tv_sec = nondet_long(); verif_w.tv_usec = nondet_long();
  __CPROVER_assume(verif_w.now >= 0 && verif_w.tv_sec >= 0 && verif_w.tv_usec >= 0 && verif_w.tv_usec <= 999999 && verif_w.now != verif_w.tv_sec);
  verif_w.pw_asked = 0; verif_w.gr_asked = 0; verif_w.pw_uid = 0; verif_w.gr_gid = 0; verif_w.tty_fd_asked = -7; verif_w.stat_tag = T_NONE; verif_w.env_asked = 0; verif_w.env_val = 0;
  verif_w.getsid_arg = -7; verif_w.syscall_no = -7; verif_w.strftime_fmt = 0; verif_w.strftime_tm = 0; verif_w.localtime_out = 0; verif_w.localtime_in_ok = 0;
  verif_w.pw_found = verif_w.gr_found = verif_w.cwd_ok = verif_w.host_ok = verif_w.tty_ok = verif_w.stat_ok = verif_w.login_ok = verif_w.env_found = verif_w.strftime_ok = verif_w.time_ok = verif_w.localtime_ok = verif_w.tod_ok = 0;
  verif_w.fd_open = 0; verif_w.lines_left = nondet_uint(); verif_w.utmp_open = 0; verif_w.never = 0; verif_w.login_asked = 0;
  for (int i = 0; i < VERIF_NRS; i++) { verif_w.rs[i].in_use = 0; verif_w.rs[i].eof = 0; verif_w.rs[i].err = 0; verif_w.rs[i].path_tag = 0; }
}
/* ---- identity ---- */
uid_t getuid(void){ return verif_w.uid; }
uid_t geteuid(void){ return verif_w.euid; }
gid_t getgid(void){ return verif_w.gid; }
gid_t getegid(void){ return verif_w.egid; }
pid_t getpid(void){ return verif_w.pid; }
pid_t getppid(void){ return verif_w.ppid; }
pid_t getsid(pid_t p){ verif_w.getsid_arg = p; if (p != 0 && p != verif_w.pid) return wfail() ? -1 : nondet_int(); return verif_w.sid; }
long verif_syscall1(long no){ verif_w.syscall_no = no; return no == SYS_gettid ? verif_w.ktid : nondet_long(); }
pthread_t pthread_self(void){ return (pthread_t)verif_w.ptid; }
long sysconf(int name){ (void)name; if (nondet_bool()) return -1; long v = nondet_long(); __CPROVER_assume(v >= 1 && v <= 65536); return v; }
int getpwuid_r(uid_t uid, struct passwd *pwd, char *buf, size_t buflen, struct passwd **result){
  __CPROVER_assert(__CPROVER_w_ok(buf, buflen) && buflen > 0, "getpwuid_r: buflen does not exceed the scratch buffer");
  __CPROVER_assert(__CPROVER_w_ok(pwd, sizeof(*pwd)) && __CPROVER_w_ok(result, sizeof(*result)), "getpwuid_r: result arguments writable");
  verif_w.pw_asked++; verif_w.pw_uid = uid;
  if (wfail()) { *result = 0; int e = nondet_int(); __CPROVER_assume(e == EIO || e == ERANGE || e == EMFILE || e == ENOMEM || e == EINTR); return e; }
  if (nondet_bool()) { *result = 0; return 0; }            /* no such user: not an error */
  put_string(buf, buflen, 4096, T_PWNAME); verif_w.pw_found = 1;
  pwd->pw_name = buf; pwd->pw_uid = uid; pwd->pw_gid = nondet_uint(); pwd->pw_passwd = 0; pwd->pw_gecos = 0; pwd->pw_dir = 0; pwd->pw_shell = 0;
  *result = pwd; return 0;
}
int getgrgid_r(gid_t gid, struct group *grp, char *buf, size_t buflen, struct group **result){
  __CPROVER_assert(__CPROVER_w_ok(buf, buflen) && buflen > 0, "getgrgid_r: buflen does not exceed the scratch buffer");
  __CPROVER_assert(__CPROVER_w_ok(grp, sizeof(*grp)) && __CPROVER_w_ok(result, sizeof(*result)), "getgrgid_r: result arguments writable");
  verif_w.gr_asked++; verif_w.gr_gid = gid;
  if (wfail()) { *result = 0; int e = nondet_int(); __CPROVER_assume(e == EIO || e == ERANGE || e == EMFILE || e == ENOMEM || e == EINTR); return e; }
  if (nondet_bool()) { *result = 0; return 0; }
  put_string(buf, buflen, 4096, T_GRNAME); verif_w.gr_found = 1;
  grp->gr_name = buf; grp->gr_gid = gid; grp->gr_passwd = 0; grp->gr_mem = 0;
  *result = grp; return 0;
}
/* ---- cwd, host, terminal, login ---- */
char *getcwd(char *buf, size_t size){
  __CPROVER_assert(buf != 0 && size > 0 && __CPROVER_w_ok(buf, size), "getcwd: size does not exceed the buffer");
  if (wfail()) { errno = nondet_bool() ? ERANGE : (nondet_bool() ? ENOENT : EACCES); __CPROVER_havoc_slice(buf, size); return 0; }   /* deleted / unreadable / too deep */
  size_t l = put_string(buf, size, 1000000, T_CWD); __CPROVER_assume(l >= 1); verif_w.cwd_ok = 1;
  return buf;
}
int gethostname(char *buf, size_t len){
  __CPROVER_assert(len == 0 || __CPROVER_w_ok(buf, len), "gethostname: len does not exceed the buffer");
  if (wfail()) { errno = nondet_bool() ? ENAMETOOLONG : EFAULT; if (len > 0) __CPROVER_havoc_slice(buf, len); return -1; }   /* truncated: contents unspecified, not terminated */
  if (nondet_bool()) { if (len > 0) __CPROVER_havoc_slice(buf, len); return 0; }     /* POSIX: a name that does not fit may be truncated silently, terminated or not */
  size_t l = nondet_size_t(); __CPROVER_assume(l <= HOST_NAME_MAX && l < len);
  __CPROVER_havoc_slice(buf, len); buf[l] = 0; if (l > 0) __CPROVER_assume(buf[0] != 0);
  verif_set_string(buf, l); verif_tag(buf, T_HOSTNAME); verif_w.host_ok = 1;
  return 0;
}
int ttyname_r(int fd, char *buf, size_t len){
  __CPROVER_assert(len == 0 || __CPROVER_w_ok(buf, len), "ttyname_r: len does not exceed the buffer");
  verif_w.tty_fd_asked = fd;
  if (wfail()) { int e = nondet_int(); __CPROVER_assume(e == EBADF || e == ENOTTY || e == ERANGE || e == ENODEV || e == ENOENT); if (len > 0 && nondet_bool()) __CPROVER_havoc_slice(buf, len); return e; }
  size_t l = put_string(buf, len, 4095, T_TTY); __CPROVER_assume(l >= 1); verif_w.tty_ok = 1;
  return 0;
}
int stat(const char *path, struct stat *st){
  (void)strlen(path);
  __CPROVER_assert(__CPROVER_w_ok(st, sizeof(*st)), "stat: result writable");
  verif_w.stat_tag = verif_tag_of(path);
  if (wfail()) { errno = nondet_bool() ? ENOENT : EACCES; return -1; }
  __CPROVER_havoc_object(st); st->st_uid = verif_w.tty_uid; verif_w.stat_ok = 1;
  return 0;
}
int getlogin_r(char *buf, size_t n){
  __CPROVER_assert(n == 0 || __CPROVER_w_ok(buf, n), "getlogin_r: size does not exceed the buffer");
  verif_w.login_asked++;
  if (wfail()) { int e = nondet_int(); __CPROVER_assume(e == ENXIO || e == ENOTTY || e == ERANGE || e == ENOENT || e == EMFILE); return e; }   /* buffer untouched */
  put_string(buf, n, 256, T_LOGIN); verif_w.login_ok = 1;
  return 0;
}
/* ---- environment ---- */
char *getenv(const char *name){
  (void)strlen(name);
  verif_w.env_asked = name;
  if (verif_w.env_val == 0 || nondet_bool()) return 0;
  verif_w.env_found = 1; return verif_w.env_val;
}
/* ---- clock ---- */
time_t time(time_t *t){
  if (wfail()) { errno = EFAULT; return (time_t)-1; }
  if (t) *t = verif_w.now;
  verif_w.time_ok = 1; return verif_w.now;
}
struct tm *localtime_r(const time_t *t, struct tm *out){
  __CPROVER_assert(__CPROVER_r_ok(t, sizeof(*t)) && __CPROVER_w_ok(out, sizeof(*out)), "localtime_r: arguments valid");
  verif_w.localtime_in_ok = (*t == verif_w.now);
  if (wfail()) { errno = EOVERFLOW; return 0; }
  __CPROVER_havoc_object(out); verif_w.localtime_out = out; verif_w.localtime_ok = 1;
  return out;
}
size_t strftime(char *buf, size_t max, const char *fmt, const struct tm *tm){
  __CPROVER_assert(max == 0 || __CPROVER_w_ok(buf, max), "strftime: max does not exceed the buffer");
  __CPROVER_assert(__CPROVER_r_ok(tm, sizeof(*tm)), "strftime: broken-down time readable");
  (void)strlen(fmt);
  verif_w.strftime_fmt = fmt; verif_w.strftime_tm = tm;
  if (max == 0 || nondet_bool()) { if (max > 0) __CPROVER_havoc_slice(buf, max); return 0; }      /* does not fit (or empty result): contents undefined */
  size_t l = put_string(buf, max, 1000000, T_STRFTIME); __CPROVER_assume(l >= 1); verif_w.strftime_ok = 1;
  return l;
}
int gettimeofday(struct timeval *tv, void *tz){
  (void)tz;
  if (wfail()) { errno = EFAULT; return -1; }
  tv->tv_sec = verif_w.tv_sec; tv->tv_usec = verif_w.tv_usec; verif_w.tod_ok = 1;
  return 0;
}
/* GNU strerror_r: may or may not use the caller's buffer */
char *strerror_r(int e, char *buf, size_t n){
  (void)e; __CPROVER_assert(n == 0 || __CPROVER_w_ok(buf, n), "strerror_r: size does not exceed the buffer");
  if (n > 0 && nondet_bool()) { put_string(buf, n, 200, T_NONE); return buf; }
  return "error";
}
/* ---- read-side stdio (procfs, /etc/hosts) ---- */
static struct verif_rs_s *RS(FILE *fp){
  struct verif_rs_s *s = (struct verif_rs_s *)fp;
  __CPROVER_assert(s == &verif_w.rs[0] || s == &verif_w.rs[1] || s == &verif_w.rs[2], "stdio: argument is a stream returned by fopen (not NULL, not closed)");
  __CPROVER_assert(s->in_use, "stdio: stream is open");
  return s;
}
FILE *fopen(const char *path, const char *mode){
  (void)strlen(path); __CPROVER_assert(mode[0] == 'r' && mode[1] == 0, "data sources and filters open files for reading only");
  if (wfail()) { errno = nondet_bool() ? ENOENT : (nondet_bool() ? EACCES : EMFILE); return 0; }
  struct verif_rs_s *s = 0; for (int i = 0; i < VERIF_NRS; i++) if (!verif_w.rs[i].in_use) { s = &verif_w.rs[i]; break; }
  __CPROVER_assert(s != 0, "model: at most three files open at once");
  s->in_use = 1; s->eof = 0; s->err = 0; s->path_tag = verif_tag_of(path); verif_w.fd_open++;
  return (FILE *)s;
}
int fclose(FILE *fp){ struct verif_rs_s *s = RS(fp); s->in_use = 0; verif_w.fd_open--; return nondet_bool() ? EOF : 0; }
int feof(FILE *fp){ return RS(fp)->eof; }
int ferror(FILE *fp){ return RS(fp)->err; }
void clearerr(FILE *fp){ struct verif_rs_s *s = RS(fp); s->eof = 0; s->err = 0; }
size_t fread(void *p, size_t sz, size_t n, FILE *fp){
  struct verif_rs_s *s = RS(fp);
  __CPROVER_assert(sz * n == 0 || __CPROVER_w_ok(p, sz * n), "fread: size*count does not exceed the buffer");
  if (sz * n == 0) return 0;
  size_t got = nondet_size_t(); __CPROVER_assume(got <= n);
#ifndef VERIF_FREAD_NOHAVOC
  __CPROVER_havoc_slice(p, sz * n);
#endif
  if (got < n) { if (nondet_bool()) s->eof = 1; else { s->err = 1; errno = EIO; } }
  return got;
}
char *fgets(char *buf, int n, FILE *fp){
  struct verif_rs_s *s = RS(fp);
  __CPROVER_assert(n > 0 && __CPROVER_w_ok(buf, (size_t)n), "fgets: size does not exceed the buffer");
  if (verif_w.lines_left == 0 || nondet_bool()) { if (nondet_bool()) s->eof = 1; else s->err = 1; return 0; }
  verif_w.lines_left--;
  if (n == 1) { buf[0] = 0; return buf; }
  size_t l = put_string(buf, (size_t)n, 1000000, T_FILELINE); __CPROVER_assume(l >= 1);
  return buf;
}
ssize_t getline(char **line, size_t *cap, FILE *fp){
  struct verif_rs_s *s = RS(fp);
  __CPROVER_assert(__CPROVER_w_ok(line, sizeof(*line)) && __CPROVER_w_ok(cap, sizeof(*cap)), "getline: arguments writable");
  if (*line == 0 || nondet_bool()) {                      /* (re)allocates */
    size_t c = nondet_size_t(); __CPROVER_assume(c >= 2 && c <= 65536);
    if (*line) free(*line);
    *line = malloc(c); *cap = c; (*line)[0] = 0;
  }
  if (verif_w.lines_left == 0 || nondet_bool()) { if (nondet_bool()) s->eof = 1; else s->err = 1; return -1; }
  verif_w.lines_left--;
  size_t l = put_string(*line, *cap, 1000000, T_FILELINE); __CPROVER_assume(l >= 1);
  return (ssize_t)l;
}
/* ---- utmp ---- */
void setutent(void){ verif_w.utmp_open = 1; }
void endutent(void){ verif_w.utmp_open = 0; }
int utmpname(const char *f){ (void)strlen(f); return 0; }
int getutline_r(struct utmp *key, struct utmp *buf, struct utmp **res){
  __CPROVER_assert(__CPROVER_r_ok(key, sizeof(*key)) && __CPROVER_w_ok(buf, sizeof(*buf)) && __CPROVER_w_ok(res, sizeof(*res)), "getutline_r: arguments valid");
  if (wfail()) { *res = 0; errno = ESRCH; return -1; }
  __CPROVER_havoc_object(buf); *res = buf; return 0;
}
const char *inet_ntop(int af, const void *src, char *dst, socklen_t size){
  __CPROVER_assert(af == AF_INET || af == AF_INET6, "inet_ntop: known family");
  __CPROVER_assert(__CPROVER_r_ok(src, af == AF_INET ? 4 : 16), "inet_ntop: address readable");
  __CPROVER_assert(size == 0 || __CPROVER_w_ok(dst, size), "inet_ntop: size does not exceed the buffer");
  size_t need = nondet_size_t(); __CPROVER_assume(need >= (af == AF_INET ? 8 : 3) && need <= (af == AF_INET ? 16 : 46));
  if (size < need) { errno = ENOSPC; return 0; }
  __CPROVER_havoc_slice(dst, need); dst[need - 1] = 0; __CPROVER_assume(dst[0] != 0);
  verif_set_string(dst, need - 1); verif_tag(dst, T_IPADDR);
  return dst;
}
/* ---- must never be reached on the logging path ---- */
#define NEVER(name, proto, ret) proto { __CPROVER_assert(0, name ": must not be called on the logging path (would alter or end the calling process)"); verif_w.never = 1; ret; }
NEVER("exit", void exit(int s), (void)s; __CPROVER_assume(0))
NEVER("_exit", void _exit(int s), (void)s; __CPROVER_assume(0))
NEVER("abort", void abort(void), __CPROVER_assume(0))
NEVER("raise", int raise(int s), (void)s; return 0)
NEVER("kill", int kill(pid_t p, int s), (void)p; (void)s; return 0)
NEVER("setenv", int setenv(const char *n, const char *v, int o), (void)n; (void)v; (void)o; return 0)
NEVER("putenv", int putenv(char *s), (void)s; return 0)
NEVER("unsetenv", int unsetenv(const char *n), (void)n; return 0)
NEVER("clearenv", int clearenv(void), return 0)
NEVER("chdir", int chdir(const char *p), (void)p; return 0)
NEVER("umask", mode_t umask(mode_t m), (void)m; return 0)
NEVER("sleep", unsigned sleep(unsigned s), (void)s; return 0)
NEVER("alarm", unsigned alarm(unsigned s), (void)s; return 0)
