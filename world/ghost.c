/* ghost state shared by all packs */
#include "verif_prelude.h"
int verif_snprintf_truncated;        /* ghost: some snprintf call could not store its whole output */
int verif_snprintf_register;         /* harness opt-in: snprintf result buffers enter the known-length table */
verif_str_t verif_str[VERIF_NSTR];
int verif_nstr;
void verif_register_string(const char *p, size_t len){
  __CPROVER_assert(verif_nstr < VERIF_NSTR, "harness: string table has room");
  verif_str[verif_nstr].obj = p; verif_str[verif_nstr].len = len; verif_nstr++;
}
/* DFCC havocs statics of the program under analysis: every harness starts with this */
void verif_ghost_init(void){
  verif_nstr = 0; verif_snprintf_truncated = 0; verif_snprintf_register = 0;
  verif_str[0].obj = 0; verif_str[1].obj = 0; verif_str[2].obj = 0; verif_str[3].obj = 0;
  verif_str[4].obj = 0; verif_str[5].obj = 0; verif_str[6].obj = 0; verif_str[7].obj = 0;
}
