/* ghost state shared by all packs */
#include "verif_prelude.h"
verif_str_t verif_str[VERIF_NSTR];
int verif_nstr;
void verif_register_string(const char *p, size_t len){
  __CPROVER_assert(verif_nstr < VERIF_NSTR, "harness: string table has room");
  verif_str[verif_nstr].obj = p; verif_str[verif_nstr].len = len; verif_nstr++;
}
