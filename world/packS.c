/* Pack S — size-level libc string models: loop-free, quantifier-free, unbounded.
 * They constrain pointers, object sizes and lengths only.  Sound over-approximation of glibc
 * for memory safety, frames and length arithmetic, under the stated assumption that a string
 * argument handed to libc is NUL-terminated inside its object (termination itself is checked
 * by the content-level runs, pack C).
 * Registered strings (verif_register_string) are read-only inputs whose first NUL is at a
 * known (symbolic) index; for them strlen is exact and deterministic.
 */
#include "verif_prelude.h"
#ifdef VERIF_TAGS
#include "verif_ds.h"     /* ghost taint table + record of the last snprintf call (C02/C12 data-source runs) */
#define TAGCOPY(d, s) verif_tag(d, verif_tag_of(s))
#else
#define TAGCOPY(d, s) ((void)0)
#endif
#include <limits.h>
#include <strings.h>
#define OBJSZ(p) __CPROVER_OBJECT_SIZE(p)
#define OFF(p)   __CPROVER_POINTER_OFFSET(p)
#define REM(p)   (OBJSZ(p) - (size_t)OFF(p))
#define UC(c)    ((int)((c) & 0xff))

#define VERIF_TRY(i) if (verif_str[i].obj && __CPROVER_same_object(s, verif_str[i].obj) && OFF(s) >= OFF(verif_str[i].obj) && (size_t)(OFF(s) - OFF(verif_str[i].obj)) <= verif_str[i].len && verif_str[i].obj[verif_str[i].len] == 0 && (verif_str[i].len == 0 || verif_str[i].obj[0] != 0)) { *out = verif_str[i].len - (size_t)(OFF(s) - OFF(verif_str[i].obj)); return 1; }
static _Bool verif_known_len(const char *s, size_t *out){
  VERIF_TRY(0) VERIF_TRY(1) VERIF_TRY(2) VERIF_TRY(3) VERIF_TRY(4) VERIF_TRY(5) VERIF_TRY(6) VERIF_TRY(7)
  return 0;
}

size_t strlen(const char *s){
  __CPROVER_assert(__CPROVER_r_ok(s, 1), "strlen: argument is a readable string");
  size_t l;
  if (verif_known_len(s, &l)) return l;
  if (s[0] == 0) return 0;
  size_t k = nondet_size_t();
  __CPROVER_assume(k > 0 && k < REM(s));
  __CPROVER_assume(s[k] == 0);
  return k;
}
size_t strnlen(const char *s, size_t n){
  if (n == 0) return 0;
  __CPROVER_assert(__CPROVER_r_ok(s, 1), "strnlen: argument readable");
  size_t l;
  if (verif_known_len(s, &l)) return l < n ? l : n;
  size_t k = nondet_size_t();
  __CPROVER_assume(k <= n);
  if (k < n) { __CPROVER_assume(k < REM(s)); __CPROVER_assume(s[k] == 0); }
  else __CPROVER_assume(REM(s) > n);         /* no NUL among the first n bytes: the terminator lies beyond them (argument is a terminated string) */
  return k;
}
char *strcat(char *d, const char *s){
  size_t dl = strlen(d), sl = strlen(s);
  __CPROVER_assert(__CPROVER_w_ok(d + dl, sl + 1), "strcat: destination has room for source and NUL");
  __CPROVER_havoc_slice(d + dl, sl + 1);
  d[dl + sl] = 0;
  return d;
}
char *strncat(char *d, const char *s, size_t n){
  size_t dl = strlen(d), sl = strnlen(s, n);
  __CPROVER_assert(__CPROVER_w_ok(d + dl, sl + 1), "strncat: destination has room for min(strlen(source), n) bytes and NUL");
  __CPROVER_havoc_slice(d + dl, sl + 1);
  d[dl + sl] = 0;
  return d;
}
char *strcpy(char *d, const char *s){
  size_t sl = strlen(s);
  __CPROVER_assert(__CPROVER_w_ok(d, sl + 1), "strcpy: destination has room for source and NUL");
  __CPROVER_havoc_slice(d, sl + 1);
  d[sl] = 0; TAGCOPY(d, s);
  return d;
}
char *strncpy(char *d, const char *s, size_t n){
  if (n == 0) return d;
  __CPROVER_assert(__CPROVER_w_ok(d, n), "strncpy: n does not exceed the destination");
  size_t sl = strnlen(s, n);
  __CPROVER_havoc_slice(d, n);
  if (sl < n) d[sl] = 0;
  TAGCOPY(d, s);
  return d;
}
#ifndef VERIF_CONTENT_STRCMP
int strcmp(const char *a, const char *b){
  __CPROVER_assert(__CPROVER_r_ok(a, 1) && __CPROVER_r_ok(b, 1), "strcmp: arguments readable");
  if (b[0] == 0) return UC(a[0]);
  if (a[0] == 0) return -UC(b[0]);
  if (a[0] != b[0]) return UC(a[0]) - UC(b[0]);
  return nondet_int();
}
#else
/* content-level strcmp for runs whose operands are concrete registry literals */
int strcmp(const char *a, const char *b){ size_t i = 0; while (a[i] != 0 && a[i] == b[i]) i++; return UC(a[i]) - UC(b[i]); }
#endif
int strncmp(const char *a, const char *b, size_t n){
  if (n == 0) return 0;
  __CPROVER_assert(__CPROVER_r_ok(a, 1) && __CPROVER_r_ok(b, 1), "strncmp: arguments readable");
  if (a[0] != b[0]) return UC(a[0]) - UC(b[0]);
  if (a[0] == 0) return 0;
  size_t la = strnlen(a, n), lb = strnlen(b, n);
  int r = nondet_int();
  if (la != lb) __CPROVER_assume(r != 0);      /* equal prefixes end at the same place */
  return r;
}
int strcasecmp(const char *a, const char *b){ (void)strlen(a); (void)strlen(b); return nondet_int(); }
#ifndef VERIF_NO_STRCHR
char *strchr(const char *s, int c){
  size_t l = strlen(s);
  if ((char)c == 0) return (char *)s + l;
  if (l == 0 || nondet_bool()) return 0;
  size_t k = nondet_size_t(); __CPROVER_assume(k < l);
  __CPROVER_assume(s[k] == (char)c);
  return (char *)s + k;
}
#endif
char *strrchr(const char *s, int c){ size_t l = strlen(s); if ((char)c == 0) return (char *)s + l; if (l == 0 || nondet_bool()) return 0; size_t k = nondet_size_t(); __CPROVER_assume(k < l); return (char *)s + k; }
static char *verif_strstr(const char *h, const char *n){
  size_t hl = strlen(h), nl = strlen(n);
  if (nl > hl || nondet_bool()) return 0;
  size_t k = nondet_size_t(); __CPROVER_assume(k <= hl - nl);
  __CPROVER_assume(nl == 0 || h[k] == n[0]);
  __CPROVER_assume(nl < 2 || h[k + 1] == n[1]);
  return (char *)h + k;
}
#ifndef VERIF_NO_STRSTR
char *strstr(const char *h, const char *n){ return verif_strstr(h, n); }
#endif
char *strcasestr(const char *h, const char *n){
  size_t hl = strlen(h), nl = strlen(n);
  if (nl > hl || nondet_bool()) return 0;
  size_t k = nondet_size_t(); __CPROVER_assume(k <= hl - nl);
  return (char *)h + k;
}
char *strdup(const char *s){
  size_t l = strlen(s);
  char *p = malloc(l + 1);
  __CPROVER_havoc_slice(p, l + 1);
  p[l] = 0; TAGCOPY(p, s);
  return p;
}
char *strndup(const char *s, size_t n){
  size_t l = strnlen(s, n);
  char *p = malloc(l + 1);
  __CPROVER_havoc_slice(p, l + 1);
  p[l] = 0;
  return p;
}
char *strtok_r(char *str, const char *delim, char **save){
  (void)strlen(delim);
  char *p = str ? str : *save;
  if (p == 0) return 0;
  size_t l = strlen(p);
  if (l == 0 || nondet_bool()) { *save = p + l; return 0; }
  size_t a = nondet_size_t(), b = nondet_size_t();
  __CPROVER_assume(a < l && b >= 1 && b <= l - a);
  if (a + b < l) { p[a + b] = 0; *save = p + a + b + 1; } else { *save = p + a + b; }
  return p + a;
}
int atoi(const char *s){ (void)strlen(s); return nondet_int(); }
long atol(const char *s){ (void)strlen(s); return nondet_long(); }

/* snprintf, size level: POSIX — returns the length the full output would have; writes min(ret, n-1) bytes and a NUL.
   The (literal, concrete) format is walked to bound that length: %s is exact (strlen of the argument), %.*s is
   min(strlen, precision), integer conversions lie between 1 and their maximal width, literal bytes count 1. */
void verif_set_string(const char *p, size_t len){
  for (int i = 0; i < VERIF_NSTR; i++) if (i < verif_nstr && verif_str[i].obj && __CPROVER_same_object(verif_str[i].obj, p)) { verif_str[i].obj = p; verif_str[i].len = len; return; }
  if (verif_nstr < VERIF_NSTR) { verif_str[verif_nstr].obj = p; verif_str[verif_nstr].len = len; verif_nstr++; }
}
#ifdef VERIF_SNPRINTF_SIMPLE
/* loop-free variant for DFCC runs with loop contracts (goto-instrument mis-handles contract-less loops inside callees there):
   exact length for "%s" and argument-less formats, any non-negative length otherwise */
int verif_snprintf_core(char *buf, size_t n, const char *fmt, int nargs, verif_arg_t a0, verif_arg_t a1, verif_arg_t a2, verif_arg_t a3, verif_arg_t a4){
  __CPROVER_assert(n == 0 || __CPROVER_w_ok(buf, n), "snprintf: size argument does not exceed the destination");
  size_t full;
  if (nargs == 0) full = strlen(fmt);
  else if (nargs == 1 && a0.kind == 1 && fmt[0] == '%' && fmt[1] == 's' && fmt[2] == 0) full = strlen(a0.s);
  else { if (a0.kind == 1) (void)strlen(a0.s); if (a1.kind == 1) (void)strlen(a1.s); if (a2.kind == 1) (void)strlen(a2.s); if (a3.kind == 1) (void)strlen(a3.s); if (a4.kind == 1) (void)strlen(a4.s); full = nondet_size_t(); }
  __CPROVER_assume(full <= INT_MAX);
  if (n > 0) { size_t w = full < n ? full : n - 1; __CPROVER_havoc_slice(buf, n); buf[w] = 0; }
  return (int)full;
}
#else
int verif_snprintf_core(char *buf, size_t n, const char *fmt, int nargs, verif_arg_t a0, verif_arg_t a1, verif_arg_t a2, verif_arg_t a3, verif_arg_t a4){
  __CPROVER_assert(n == 0 || __CPROVER_w_ok(buf, n), "snprintf: size argument does not exceed the destination");
  verif_arg_t a[5]; a[0] = a0; a[1] = a1; a[2] = a2; a[3] = a3; a[4] = a4;
  size_t lo = 0, hi = 0; int ai = 0;
  for (size_t i = 0; fmt[i] != 0; i++) {
    if (fmt[i] != '%') { lo++; hi++; continue; }
    i++;
    if (fmt[i] == '%') { lo++; hi++; continue; }
    size_t width = 0; long prec = -1;
    if (fmt[i] == '0') i++;
    while (fmt[i] >= '1' && fmt[i] <= '9') { width = width * 10 + (size_t)(fmt[i] - '0'); i++; }
    if (fmt[i] == '.' && fmt[i + 1] == '*') { __CPROVER_assert(ai < nargs, "snprintf: argument for '*'"); prec = (long)a[ai].i; ai++; i += 2; }
    int longs = 0; while (fmt[i] == 'l' || fmt[i] == 'z') { longs++; i++; }
    __CPROVER_assert(ai < nargs && ai < 5, "snprintf: an argument exists for every conversion");
    if (fmt[i] == 's') {
      __CPROVER_assert(a[ai].kind == 1, "snprintf: %s gets a string");
      size_t l = strlen(a[ai].s);
      if (prec >= 0 && (size_t)prec < l) l = (size_t)prec;
      lo += l; hi += l;
    } else if (fmt[i] == 'c') { lo++; hi++; }
    else { size_t mx = longs ? 20 : 11; lo += width > 1 ? width : 1; hi += width > mx ? width : mx; }
    ai++;
  }
  size_t full = nondet_size_t();
  __CPROVER_assume(full >= lo && full <= hi && full <= INT_MAX);
  if (n > 0) {
    size_t w = full < n ? full : n - 1;
    if (full >= n) verif_snprintf_truncated = 1;
#ifndef VERIF_SNPRINTF_NOHAVOC
    __CPROVER_havoc_slice(buf, n);
#else
    /* the destination's bytes keep their (arbitrary, never initialised) values: a slice havoc at a symbolic offset of a
       symbolic-size MiB object is what exhausts the SAT back end in the vector walkers; only the terminator is stored */
    __CPROVER_assert(__CPROVER_w_ok(buf, w + 1), "snprintf: bytes written lie inside the destination");
#endif
    buf[w] = 0;
    if (verif_snprintf_register) { if (w > 0) __CPROVER_assume(buf[0] != 0); verif_set_string(buf, w); }
  } else verif_snprintf_truncated = 1;
#ifdef VERIF_TAGS
  verif_w.sn.buf = buf; verif_w.sn.n = n; verif_w.sn.fmt = fmt; verif_w.sn.nargs = nargs; verif_w.sn.a[0] = a0; verif_w.sn.a[1] = a1; verif_w.sn.a[2] = a2; verif_w.sn.a[3] = a3; verif_w.sn.a[4] = a4;
  verif_w.sn.ret = (int)full; verif_w.sn.calls++;
  if (n > 0) { if (nargs == 1 && a0.kind == 1 && fmt[0] == '%' && fmt[1] == 's' && fmt[2] == 0) TAGCOPY(buf, a0.s); else verif_tag(buf, nargs == 0 ? T_LITERAL : T_FORMATTED); }
#endif
  return (int)full;
}
#endif
