/* Pack C — content-level executable reference models of the libc functions snoopy uses.
 * Plain C with loops; every run that uses it is BOUNDED (full unwinding with unwinding assertions) and is
 * complete for all inputs up to the stated length.  snprintf/sscanf implement exactly the conversion
 * specifications that occur in snoopy: %s %d %u %ld %lu %zu %03d %06d %c %.*s %% and literal text.
 */
#include "verif_prelude.h"
#include <limits.h>
#include <strings.h>
#define UC(c) ((int)((c) & 0xff))

size_t strlen(const char *s){ size_t n = 0; while (s[n] != 0) n++; return n; }
size_t strnlen(const char *s, size_t m){ size_t n = 0; while (n < m && s[n] != 0) n++; return n; }
char *strcpy(char *d, const char *s){ size_t i = 0; while ((d[i] = s[i]) != 0) i++; return d; }
char *strcat(char *d, const char *s){ size_t n = strlen(d); size_t i = 0; while ((d[n + i] = s[i]) != 0) i++; return d; }
/* strncpy: the copied prefix and the first padding NUL are exact.  The REST of the zero padding is NOT written: a padding
   loop or a symbolic-length havoc over a 4 KiB array makes the SAT encoding intractable (probed: >10 min for 4-byte inputs).
   Every destination in the bounded runs is an uninitialised stack/heap buffer, whose bytes cbmc already treats as arbitrary,
   so "arbitrary" over-approximates "zero" there; recorded as an assumption of pack C. */
char *strncpy(char *d, const char *s, size_t n){
  size_t i = 0;
  while (i < n && s[i] != 0) { d[i] = s[i]; i++; }
  if (i < n) { __CPROVER_assert(__CPROVER_w_ok(d, n), "strncpy: n does not exceed the destination"); d[i] = 0; }
  return d; }
int strcmp(const char *a, const char *b){ size_t i = 0; while (a[i] != 0 && a[i] == b[i]) i++; return UC(a[i]) - UC(b[i]); }
int strncmp(const char *a, const char *b, size_t n){ size_t i = 0; if (n == 0) return 0; while (i + 1 < n && a[i] != 0 && a[i] == b[i]) i++; return UC(a[i]) - UC(b[i]); }
static int verif_lower(int c){ return (c >= 'A' && c <= 'Z') ? c + 32 : c; }
int strcasecmp(const char *a, const char *b){ size_t i = 0; while (a[i] != 0 && verif_lower(UC(a[i])) == verif_lower(UC(b[i]))) i++; return verif_lower(UC(a[i])) - verif_lower(UC(b[i])); }
char *strchr(const char *s, int c){ size_t i = 0; for (;;) { if (s[i] == (char)c) return (char *)s + i; if (s[i] == 0) return 0; i++; } }
char *strrchr(const char *s, int c){ const char *r = 0; size_t i = 0; for (;;) { if (s[i] == (char)c) r = s + i; if (s[i] == 0) return (char *)r; i++; } }
char *strstr(const char *h, const char *n){
  if (n[0] == 0) return (char *)h;
  for (size_t i = 0; h[i] != 0; i++) {
    size_t j = 0;
    while (n[j] != 0 && h[i + j] != 0 && h[i + j] == n[j]) j++;
    if (n[j] == 0) return (char *)h + i;
    if (h[i + j] == 0) return 0;
  }
  return 0;
}
char *strcasestr(const char *h, const char *n){
  if (n[0] == 0) return (char *)h;
  for (size_t i = 0; h[i] != 0; i++) {
    size_t j = 0;
    while (n[j] != 0 && h[i + j] != 0 && verif_lower(UC(h[i + j])) == verif_lower(UC(n[j]))) j++;
    if (n[j] == 0) return (char *)h + i;
    if (h[i + j] == 0) return 0;
  }
  return 0;
}
/* allocation of a small, symbolically sized block as a choice among CONCRETE sizes: cbmc's memory model exhausts memory on
   symbolically sized objects that are then accessed byte by byte (probed), while exact object sizes are kept this way */
#define VERIF_SZ(k) if (n == k) return __CPROVER_allocate(k, 0);
static void *verif_malloc_small(size_t n){
  VERIF_SZ(1) VERIF_SZ(2) VERIF_SZ(3) VERIF_SZ(4) VERIF_SZ(5) VERIF_SZ(6) VERIF_SZ(7) VERIF_SZ(8) VERIF_SZ(9) VERIF_SZ(10) VERIF_SZ(11) VERIF_SZ(12)
  VERIF_SZ(13) VERIF_SZ(14) VERIF_SZ(15) VERIF_SZ(16) VERIF_SZ(17) VERIF_SZ(18) VERIF_SZ(19) VERIF_SZ(20) VERIF_SZ(21) VERIF_SZ(22) VERIF_SZ(23) VERIF_SZ(24)
  VERIF_SZ(25) VERIF_SZ(26) VERIF_SZ(27) VERIF_SZ(28) VERIF_SZ(29) VERIF_SZ(30) VERIF_SZ(31) VERIF_SZ(32)
  VERIF_SZ(40) VERIF_SZ(48) VERIF_SZ(56) VERIF_SZ(64) VERIF_SZ(72) VERIF_SZ(80) VERIF_SZ(88) VERIF_SZ(96) VERIF_SZ(104) VERIF_SZ(112)
  return __CPROVER_allocate(n, 0); }
#ifdef VERIF_MALLOC_CHOICE
/* content-level runs whose REAL code allocates symbolically sized blocks (malloc(strlen(x)+1)): the same choice among concrete
   sizes for every malloc of the run (never NULL: allocation failure is outside the properties' domain; leak tracking is done in the
   size-level runs, not here) */
void *malloc(size_t n){ return verif_malloc_small(n); }
#endif
#ifdef VERIF_STRDUP_EXACT_INPUT
/* for harnesses whose input string fills its buffer exactly (no NUL before the last byte): the copy gets the input's
   remaining object size, which is then EXACTLY strlen+1 and, being concrete, keeps the run tractable */
char *strdup(const char *s){ size_t n = strlen(s); size_t room = __CPROVER_OBJECT_SIZE(s) - (size_t)__CPROVER_POINTER_OFFSET(s); __CPROVER_assert(room == n + 1, "harness: strdup input fills its buffer exactly"); char *p = malloc(room); for (size_t i = 0; i <= n; i++) p[i] = s[i]; return p; }
#else
char *strdup(const char *s){ size_t n = strlen(s); char *p = verif_malloc_small(n + 1); for (size_t i = 0; i <= n; i++) p[i] = s[i]; return p; }
#endif
char *strndup(const char *s, size_t m){ size_t n = strnlen(s, m); char *p = verif_malloc_small(n + 1); for (size_t i = 0; i < n; i++) p[i] = s[i]; p[n] = 0; return p; }
/* further string functions a change to snoopy may plausibly start using (a call without a model returns an arbitrary value in cbmc
   and turns a concrete run into an intractable symbolic one) */
size_t strcspn(const char *s, const char *rej){ size_t i = 0; for (; s[i] != 0; i++) { for (size_t j = 0; rej[j] != 0; j++) if (s[i] == rej[j]) return i; } return i; }
size_t strspn(const char *s, const char *acc){ size_t i = 0; for (; s[i] != 0; i++) { int ok = 0; for (size_t j = 0; acc[j] != 0; j++) if (s[i] == acc[j]) ok = 1; if (!ok) return i; } return i; }
char *strpbrk(const char *s, const char *acc){ size_t i = strcspn(s, acc); return s[i] ? (char *)s + i : 0; }
void *memchr(const void *p, int c, size_t n){ const char *s = p; for (size_t i = 0; i < n; i++) if (s[i] == (char)c) return (void *)(s + i); return 0; }
char *strncat(char *d, const char *s, size_t n){ size_t l = strlen(d), i = 0; for (; i < n && s[i] != 0; i++) d[l + i] = s[i]; d[l + i] = 0; return d; }
static int verif_isdelim(char c, const char *d){ for (size_t i = 0; d[i] != 0; i++) if (d[i] == c) return 1; return 0; }
char *strtok_r(char *str, const char *delim, char **save){
  char *p = str ? str : *save;
  if (p == 0) return 0;
  while (*p != 0 && verif_isdelim(*p, delim)) p++;
  if (*p == 0) { *save = p; return 0; }
  char *tok = p;
  while (*p != 0 && !verif_isdelim(*p, delim)) p++;
  if (*p != 0) { *p = 0; *save = p + 1; } else *save = p;
  return tok;
}
static long long verif_atoll(const char *s, _Bool *ovf){
  size_t i = 0; int neg = 0; long long v = 0; int nd = 0;
  while (s[i] == ' ' || (s[i] >= 9 && s[i] <= 13)) i++;
  if (s[i] == '-') { neg = 1; i++; } else if (s[i] == '+') i++;
  while (s[i] >= '0' && s[i] <= '9') {
    if (nd >= 18) { *ovf = 1; return neg ? LLONG_MIN : LLONG_MAX; }     /* 18 digits always fit; more saturate (no division needed) */
    v = v * 10 + (s[i] - '0'); i++; if (v != 0) nd++;
  }
  return neg ? -v : v;
}
/* out-of-range conversions: atoi/atol behaviour is undefined in ISO C; glibc converts through strtol and truncates */
int atoi(const char *s){ _Bool o = 0; long long v = verif_atoll(s, &o); return (int)(unsigned int)(unsigned long long)v; }
long atol(const char *s){ _Bool o = 0; return (long)verif_atoll(s, &o); }
long long atoll(const char *s){ _Bool o = 0; return verif_atoll(s, &o); }
long strtol(const char *s, char **end, int base){
  __CPROVER_assert(base == 10 || base == 0, "strtol model: base 10 only");
  size_t i = 0; int neg = 0; long long v = 0; _Bool ovf = 0, any = 0;
  while (s[i] == ' ' || (s[i] >= 9 && s[i] <= 13)) i++;
  if (s[i] == '-') { neg = 1; i++; } else if (s[i] == '+') i++;
  while (s[i] >= '0' && s[i] <= '9') { any = 1;
    if (!ovf) { if (v > (LLONG_MAX - (s[i] - '0')) / 10) ovf = 1; else v = v * 10 + (s[i] - '0'); }
    i++; }
  if (end) *end = (char *)(any ? s + i : s);
  if (ovf) { errno = ERANGE; return neg ? LONG_MIN : LONG_MAX; }
  return neg ? -v : v;
}
unsigned long strtoul(const char *s, char **end, int base){ return (unsigned long)strtol(s, end, base); }

/* ---- snprintf ------------------------------------------------------------------------ */
typedef struct { char *buf; size_t n; size_t pos; } verif_out_t;
static void verif_putc(verif_out_t *o, char c){ if (o->n > 0 && o->pos < o->n - 1) o->buf[o->pos] = c; o->pos++; }
static void verif_putu(verif_out_t *o, unsigned long long v, int width, char pad){
  char tmp[20]; int k = 0;
  do { tmp[k++] = (char)('0' + (int)(v % 10)); v /= 10; } while (v != 0 && k < 20);
  for (int w = k; w < width; w++) verif_putc(o, pad);
  while (k > 0) verif_putc(o, tmp[--k]);
}
int verif_snprintf_core(char *buf, size_t n, const char *fmt, int nargs, verif_arg_t a0, verif_arg_t a1, verif_arg_t a2, verif_arg_t a3, verif_arg_t a4){
  verif_arg_t a[5]; a[0] = a0; a[1] = a1; a[2] = a2; a[3] = a3; a[4] = a4;
  verif_out_t o; o.buf = buf; o.n = n; o.pos = 0; int ai = 0;
  for (size_t i = 0; fmt[i] != 0; i++) {
    if (fmt[i] != '%') { verif_putc(&o, fmt[i]); continue; }
    i++;
    if (fmt[i] == '%') { verif_putc(&o, '%'); continue; }
    int width = 0; char pad = ' '; long prec = -1;
    if (fmt[i] == '0') { pad = '0'; i++; }
    while (fmt[i] >= '1' && fmt[i] <= '9') { width = width * 10 + (fmt[i] - '0'); i++; }
    if (fmt[i] == '.' && fmt[i + 1] == '*') { __CPROVER_assert(ai < nargs, "snprintf model: argument for '*'"); prec = (long)a[ai].i; ai++; i += 2; }
    while (fmt[i] == 'l' || fmt[i] == 'z') i++;
    __CPROVER_assert(ai < nargs, "snprintf: an argument exists for every conversion");
    if (fmt[i] == 's') {
      __CPROVER_assert(a[ai].kind == 1, "snprintf: %s gets a string");
      const char *s = a[ai].s; for (size_t k = 0; s[k] != 0 && (prec < 0 || (long)k < prec); k++) verif_putc(&o, s[k]);
    } else if (fmt[i] == 'd') {
      long long v = a[ai].kind == 3 ? (long long)a[ai].u : a[ai].i;
      if (v < 0) { verif_putc(&o, '-'); verif_putu(&o, (unsigned long long)(-(v + 1)) + 1ull, width > 0 ? width - 1 : 0, pad); }
      else verif_putu(&o, (unsigned long long)v, width, pad);
    } else if (fmt[i] == 'u') {
      verif_putu(&o, a[ai].kind == 3 ? a[ai].u : (unsigned long long)a[ai].i, width, pad);
    } else if (fmt[i] == 'c') {
      verif_putc(&o, (char)a[ai].i);
    } else { __CPROVER_assert(0, "snprintf model: conversion not among those snoopy uses"); }
    ai++;
  }
  if (n > 0) buf[o.pos < n ? o.pos : n - 1] = 0;
  __CPROVER_assert(o.pos <= INT_MAX, "snprintf: result length representable");
  return (int)o.pos;
}
/* sscanf(str, " %c %d", &c, &d) — the only use in snoopy */
int verif_sscanf2(const char *str, const char *fmt, void *p0, void *p1){
  __CPROVER_assert(fmt[0] == ' ' && fmt[1] == '%' && fmt[2] == 'c' && fmt[3] == ' ' && fmt[4] == '%' && fmt[5] == 'd' && fmt[6] == 0, "sscanf model: format is \" %c %d\"");
  size_t i = 0;
  while (str[i] == ' ' || (str[i] >= 9 && str[i] <= 13)) i++;
  if (str[i] == 0) return -1;
  *(char *)p0 = str[i]; i++;
  while (str[i] == ' ' || (str[i] >= 9 && str[i] <= 13)) i++;
  if (str[i] == 0) return 1;
  int neg = 0; if (str[i] == '-') { neg = 1; i++; } else if (str[i] == '+') i++;
  if (!(str[i] >= '0' && str[i] <= '9')) return 1;
  long long v = 0;
  while (str[i] >= '0' && str[i] <= '9') { if (v < 100000000000LL) v = v * 10 + (str[i] - '0'); i++; }
  if (v > INT_MAX) v = INT_MAX;          /* glibc: out-of-range input converts to an unspecified int; any value is acceptable */
  *(int *)p1 = (int)(neg ? -v : v);
  return 2;
}
