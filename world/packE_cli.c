/* Pack E (CLI part) — file-system model for snoopyctl enable/disable (C20, also used by C18/C19).
 * Ghost on-disk state of the TARGET file (ld.so.preload): OLD complete previous content, NEW complete new
 * content, TRUNCATED (empty/short), PARTIAL (mixed or incomplete).  Every model ends with a CRASH POINT:
 * the state a kill -9 (or power loss) immediately before/after that system call would leave must be OLD or NEW.
 * Write-type calls may fail nondeterministically (ENOSPC, EIO, EDQUOT).  POSIX facts assumed: rename() replaces
 * the target atomically; a file opened with "w"/"w+"/O_TRUNC is empty from that instant.
 */
#include "verif_prelude.h"
#include <fcntl.h>
#include "snoopy.h"
#include <sys/stat.h>
enum { D_OLD = 0, D_TRUNCATED = 1, D_PARTIAL = 2, D_NEW = 3 };
int verif_disk; int verif_exit_status; int verif_target_existed;
const char *verif_new_content;          /* what the caller wants the file to contain */
char *verif_captured;                   /* copy of what was written (content-level harnesses) */
typedef struct { int in_use, std, target, writable, wrote_ok, failed, fd; const char *path; } verif_stream_t;
#define NSTREAM 5
verif_stream_t verif_fs[NSTREAM];
int verif_open_files;                   /* descriptor balance */
const char *verif_tmp_path; int verif_tmp_complete; int verif_tmp_exists;
static const char verif_target_name[] = SNOOPY_ETC_LD_SO_PRELOAD_PATH;

#define CRASH_POINT(fn) __CPROVER_assert(verif_disk == D_OLD || verif_disk == D_NEW, fn ": ld.so.preload on disk is the complete old or the complete new content at this system-call boundary")

static int verif_is_target(const char *p){
  for (unsigned i = 0; i < sizeof(verif_target_name); i++) { if (p[i] != verif_target_name[i]) return 0; }
  return 1;
}
void verif_cli_init(const char *new_content){
  verif_disk = D_OLD; verif_exit_status = -1; verif_new_content = new_content; verif_captured = 0; verif_open_files = 0;
  verif_tmp_path = 0; verif_tmp_complete = 0; verif_tmp_exists = 0; verif_target_existed = nondet_bool();
  for (int i = 0; i < NSTREAM; i++) { verif_fs[i].in_use = 0; verif_fs[i].std = 0; verif_fs[i].target = 0; verif_fs[i].writable = 0; verif_fs[i].wrote_ok = 0; verif_fs[i].failed = 0; verif_fs[i].fd = 3 + i; verif_fs[i].path = 0; }
  verif_fs[0].in_use = 1; verif_fs[0].std = 1; verif_fs[0].writable = 1; verif_fs[0].fd = 1;
  verif_fs[1].in_use = 1; verif_fs[1].std = 2; verif_fs[1].writable = 1; verif_fs[1].fd = 2;
  stdout = (FILE *)&verif_fs[0]; stderr = (FILE *)&verif_fs[1];
}
static verif_stream_t *S(FILE *fp){
  verif_stream_t *s = (verif_stream_t *)fp;
  __CPROVER_assert(s == &verif_fs[0] || s == &verif_fs[1] || s == &verif_fs[2] || s == &verif_fs[3] || s == &verif_fs[4], "stdio: stream argument is an open stream");
  __CPROVER_assert(s->in_use, "stdio: stream is open (not used after fclose)");
  return s;
}
FILE *fopen(const char *path, const char *mode){
  int tgt = verif_is_target(path);
  int w = (mode[0] == 'w' || mode[0] == 'a' || (mode[0] == 'r' && (mode[1] == '+' || (mode[1] && mode[2] == '+'))));
  if (nondet_bool()) { errno = nondet_bool() ? ENOENT : EACCES; return 0; }
  verif_stream_t *s = 0;
  for (int i = 2; i < NSTREAM; i++) if (!verif_fs[i].in_use) { s = &verif_fs[i]; break; }
  __CPROVER_assert(s != 0, "model: at most three files open at once");
  s->in_use = 1; s->std = 0; s->target = tgt; s->writable = w; s->wrote_ok = 0; s->failed = 0; s->path = path; verif_open_files++;
  if (tgt && mode[0] == 'w') verif_disk = D_TRUNCATED;          /* "w"/"w+" truncate at open */
  if (!tgt && w) { verif_tmp_path = path; verif_tmp_exists = 1; verif_tmp_complete = 0; }
  CRASH_POINT("fopen");
  return (FILE *)s;
}
static int verif_write_effect(verif_stream_t *s, const char *data, int whole){
  if (s->std) return 0;
  __CPROVER_assert(s->writable, "stdio: write on a stream opened for writing");
  if (nondet_bool()) { s->failed = 1; if (s->target) verif_disk = D_PARTIAL; errno = ENOSPC; CRASH_POINT("write (failing with ENOSPC/EIO/EDQUOT)"); return -1; }
  if (s->target) verif_disk = D_PARTIAL;                         /* bytes reach the target file piecemeal / in place */
  else if (whole && data == verif_new_content && !s->failed && !s->wrote_ok) s->wrote_ok = 1;
  else s->failed = 1;                                             /* not the intended content in one piece */
  CRASH_POINT("write");
  return 0;
}
int verif_fprintf_core(FILE *fp, const char *fmt, int nargs, verif_arg_t a0, verif_arg_t a1, verif_arg_t a2){
  verif_stream_t *s = S(fp);
  if (s->std) return 1;
  int whole = (nargs == 1 && fmt[0] == '%' && fmt[1] == 's' && fmt[2] == 0 && a0.kind == 1);
  if (verif_write_effect(s, whole ? a0.s : 0, whole) < 0) return -1;
  return 1;
}
int fputs(const char *str, FILE *fp){ verif_stream_t *s = S(fp); if (s->std) return 1; return verif_write_effect(s, str, 1) < 0 ? -1 : 1; }
size_t fwrite(const void *p, size_t sz, size_t n, FILE *fp){ verif_stream_t *s = S(fp); if (s->std) return n; return verif_write_effect(s, 0, 0) < 0 ? 0 : n; }
int puts(const char *str){ (void)str; return 1; }
int fflush(FILE *fp){ if (fp == 0) return 0; verif_stream_t *s = S(fp); if (s->std) return 0;
  if (s->writable && nondet_bool()) { s->failed = 1; if (s->target) verif_disk = D_PARTIAL; errno = ENOSPC; CRASH_POINT("fflush (failing)"); return -1; }
  CRASH_POINT("fflush"); return 0; }
int fclose(FILE *fp){
  verif_stream_t *s = S(fp); __CPROVER_assert(!s->std, "fclose: not a standard stream");
  s->in_use = 0; verif_open_files--;
  if (s->writable && nondet_bool()) { s->failed = 1; if (s->target) verif_disk = D_PARTIAL; errno = ENOSPC; CRASH_POINT("fclose (flush failing)"); return -1; }
  if (s->target && s->writable && verif_disk == D_PARTIAL && !s->failed) { /* in-place rewrite finished: still not atomic, state was bad in between */ }
  if (!s->target && s->writable && s->path == verif_tmp_path && s->wrote_ok && !s->failed) verif_tmp_complete = 1;
  CRASH_POINT("fclose");
  return 0;
}
int fileno(FILE *fp){ return S(fp)->fd; }
int fsync(int fd){ (void)fd; if (nondet_bool()) { errno = EIO; return -1; } CRASH_POINT("fsync"); return 0; }
int fdatasync(int fd){ return fsync(fd); }
int fchmod(int fd, mode_t m){ (void)fd; (void)m; CRASH_POINT("fchmod"); return nondet_bool() ? -1 : 0; }
int fchown(int fd, uid_t u, gid_t g){ (void)fd; (void)u; (void)g; CRASH_POINT("fchown"); return nondet_bool() ? -1 : 0; }
int chmod(const char *p, mode_t m){ (void)p; (void)m; CRASH_POINT("chmod"); return nondet_bool() ? -1 : 0; }
int stat(const char *p, struct stat *st){ (void)p; if (nondet_bool()) { errno = ENOENT; return -1; } st->st_mode = (mode_t)nondet_uint(); st->st_uid = nondet_uint(); st->st_gid = nondet_uint(); st->st_size = 0; return 0; }
int ftruncate(int fd, off_t len){ (void)len;
  for (int i = 2; i < NSTREAM; i++) if (verif_fs[i].in_use && verif_fs[i].fd == fd && verif_fs[i].target) verif_disk = D_PARTIAL;   /* cutting the target in place */
  if (nondet_bool()) { errno = EIO; CRASH_POINT("ftruncate (failing)"); return -1; }
  CRASH_POINT("ftruncate"); return 0; }
int truncate(const char *p, off_t len){ (void)len; if (verif_is_target(p)) verif_disk = D_TRUNCATED; CRASH_POINT("truncate"); return 0; }
int rename(const char *from, const char *to){
  if (nondet_bool()) { errno = nondet_bool() ? EACCES : ENOSPC; CRASH_POINT("rename (failing)"); return -1; }
  if (verif_is_target(to)) {
    if (from == verif_tmp_path && verif_tmp_exists && verif_tmp_complete) verif_disk = D_NEW;      /* atomic replacement by a complete file */
    else verif_disk = D_PARTIAL;                                                                     /* replaced by something incomplete */
    verif_tmp_exists = 0;
  } else if (verif_is_target(from)) verif_disk = D_TRUNCATED;                                        /* target moved away: file missing */
  CRASH_POINT("rename");
  return 0;
}
int unlink(const char *p){ if (verif_is_target(p)) verif_disk = D_TRUNCATED; else if (p == verif_tmp_path) verif_tmp_exists = 0; CRASH_POINT("unlink"); return nondet_bool() ? -1 : 0; }
int remove(const char *p){ return unlink(p); }
int fseek(FILE *fp, long off, int wh){ (void)S(fp); (void)off; (void)wh; return nondet_bool() ? -1 : 0; }
long ftell(FILE *fp){ (void)S(fp); long r = nondet_long(); __CPROVER_assume(r >= -1 && r <= 4096); return r; }
void rewind(FILE *fp){ (void)S(fp); }
int access(const char *p, int m){ (void)p; (void)m; return nondet_bool() ? -1 : 0; }
char *strerror(int e){ (void)e; static char msg[8] = "error"; return msg; }
/* process exit: the state on disk must be acceptable, and a failed run must not report success */
void exit(int status){
  verif_exit_status = status;
  __CPROVER_assert(verif_disk == D_OLD || verif_disk == D_NEW, "exit: ld.so.preload on disk is the complete old or the complete new content");
  __CPROVER_assert(status != 0 || verif_disk == D_NEW || verif_disk == D_OLD, "exit status 0 only with a complete file");
  __CPROVER_assume(0);
}
void _exit(int status){ exit(status); }
void abort(void){ exit(134); }
