/* Pack E (threads) — sequential model of the pthread calls tsrm.c makes.
 *  - one recursive mutex with ghost owner+depth; locking a mutex owned by ANOTHER (in a forked child: non-existent) thread
 *    "would block forever" and is an assertion failure;
 *  - capability pointer (lock discipline, C09): snoopy_tsrm_threadRepo is valid only while the lock is held, so any access to
 *    the repository outside a critical section is a NULL dereference under --pointer-check;
 *  - interference (rely, C09): whenever the lock is acquired from depth 0, other threads may have added/removed THEIR OWN
 *    entries (list rebuilt around my untouched entry); before that the guarantee owed to them is asserted: every entry that is
 *    linked is a live object with a live record (they traverse the list and read value->threadId at any time);
 *  - pthread_atfork registers handlers; the fork harness (C10) runs the child handlers.
 */
#include "verif_prelude.h"
#include "verif_thread.h"
int verif_depth; pthread_t verif_owner, verif_self; int verif_once_done, verif_mutex_inited, verif_mutex_recursive, verif_capability, verif_interference;
listNode_t *verif_my_node; void (*verif_atfork_child[2])(void); int verif_n_atfork;
static int attr_recursive;
void verif_thread_init(void){ verif_depth = 0; verif_once_done = 0; verif_mutex_inited = 0; verif_mutex_recursive = 0; verif_capability = 0; verif_interference = 0; verif_my_node = 0; verif_n_atfork = 0; attr_recursive = 0;
  verif_self = (pthread_t)nondet_ulong(); verif_owner = 0;
  snoopy_tsrm_threadRepo_data.first = 0; snoopy_tsrm_threadRepo_data.last = 0; snoopy_tsrm_threadRepo_data.count = 0; snoopy_tsrm_threadRepo = &snoopy_tsrm_threadRepo_data; }
pthread_t pthread_self(void){ return verif_self; }
int pthread_equal(pthread_t a, pthread_t b){ return a == b; }
int pthread_once(pthread_once_t *c, void (*f)(void)){ __CPROVER_assert(c == &snoopy_tsrm_init_onceControl, "pthread_once: the library's once-control"); if (!verif_once_done) { verif_once_done = 1; f(); } return 0; }
int pthread_mutexattr_init(pthread_mutexattr_t *a){ (void)a; attr_recursive = 0; return 0; }
int pthread_mutexattr_settype(pthread_mutexattr_t *a, int t){ (void)a; attr_recursive = (t == PTHREAD_MUTEX_RECURSIVE); return 0; }
int pthread_mutex_init(pthread_mutex_t *m, const pthread_mutexattr_t *a){ __CPROVER_assert(m == &snoopy_tsrm_threadRepo_mutex, "only the repository mutex"); verif_mutex_inited = 1; verif_mutex_recursive = a ? attr_recursive : 0; verif_depth = 0; verif_owner = 0; if (verif_capability) snoopy_tsrm_threadRepo = 0; return 0; }
int pthread_atfork(void (*pre)(void), void (*par)(void), void (*child)(void)){ (void)pre; (void)par; __CPROVER_assert(verif_n_atfork < 2, "model: at most two atfork registrations"); if (verif_n_atfork < 2) verif_atfork_child[verif_n_atfork++] = child; return 0; }
static snoopy_tsrm_threadData_t *other_record(void){ snoopy_tsrm_threadData_t *d = malloc(sizeof *d); __CPROVER_assume(d != 0); d->threadId = (pthread_t)nondet_ulong(); __CPROVER_assume(d->threadId != verif_self); d->configuration = 0; d->inputdatastorage = 0; return d; }
static listNode_t *other_node(void){ listNode_t *n = malloc(sizeof *n); __CPROVER_assume(n != 0); n->value = other_record(); n->next = 0; n->prev = 0; return n; }
void verif_interfere(void){
  list_t *L = &snoopy_tsrm_threadRepo_data;
  /* guarantee owed to the other threads: what is linked is alive (they may traverse at any moment the lock is free) */
  if (verif_my_node) {
    __CPROVER_assert(__CPROVER_r_ok(verif_my_node, sizeof(listNode_t)), "guarantee: my repository entry is a live node for as long as it is linked");
    __CPROVER_assert(verif_my_node->value != 0 && __CPROVER_r_ok(verif_my_node->value, sizeof(snoopy_tsrm_threadData_t)), "guarantee: the record of a linked entry is not freed before the entry is unlinked (other threads read its thread id while traversing)");
  }
  /* rely: the others added/removed only their own entries: any list [other?] [mine?] [other?] */
  listNode_t *a = nondet_bool() ? other_node() : 0, *b = nondet_bool() ? other_node() : 0, *m = verif_my_node;
  listNode_t *seq[3]; int n = 0; if (a) seq[n++] = a; if (m) seq[n++] = m; if (b) seq[n++] = b;
  L->count = n; L->first = n ? seq[0] : 0; L->last = n ? seq[n - 1] : 0;
  for (int i = 0; i < 3; i++) if (i < n) { seq[i]->prev = i > 0 ? seq[i - 1] : 0; seq[i]->next = i + 1 < n ? seq[i + 1] : 0; }
}
int pthread_mutex_lock(pthread_mutex_t *m){
  __CPROVER_assert(m == &snoopy_tsrm_threadRepo_mutex, "only the repository mutex");
  __CPROVER_assert(verif_mutex_inited, "lock: the mutex has been initialised");
  if (verif_depth > 0 && verif_owner != verif_self) { __CPROVER_assert(0, "lock: the mutex is held by another thread that will never release it here (in a forked child that thread does not exist): the call blocks forever"); __CPROVER_assume(0); }
  if (verif_depth > 0) __CPROVER_assert(verif_mutex_recursive, "lock: re-locking by the owner needs a recursive mutex (else self-deadlock)");
  if (verif_depth == 0) { verif_owner = verif_self; if (verif_interference) verif_interfere(); if (verif_capability) snoopy_tsrm_threadRepo = &snoopy_tsrm_threadRepo_data; }
  verif_depth++;
  return 0;
}
int pthread_mutex_unlock(pthread_mutex_t *m){
  __CPROVER_assert(m == &snoopy_tsrm_threadRepo_mutex, "only the repository mutex");
  if (verif_depth == 0 || verif_owner != verif_self) return 1;     /* EPERM (recursive/error-checking mutex): nothing released */
  verif_depth--;
  if (verif_depth == 0) { verif_owner = 0; if (verif_capability) snoopy_tsrm_threadRepo = 0; }
  return 0;
}
