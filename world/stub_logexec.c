/* the logging action is not part of these runs (own contract runs under C04): calling it here is a harness error */
void snoopy_action_log_syscall_exec(void){ __CPROVER_assert(0, "harness: the logging action is outside this run"); }
void *dlsym(void *h, const char *n){ (void)h; (void)n; return 0; }
