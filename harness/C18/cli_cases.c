/* C18 (MODE_ENABLE) / C19 (MODE_DISABLE) — exhaustive over the generated file list (cli_cases.h): every case is a concrete file, run
 * on its own path of the symbolic execution (no merging), against the line-based reference of cli_common.h. */
#include "cli_common.h"
#include "cli/action-enable.h"
#include "cli/action-disable.h"
#include "cli/action-status.h"
#include "cli_cases.h"
static int expect_refuse, status_ok, status_seen;
/* status output capture */
void printMessage(const char * const m){ if (starts_with(m, "/etc/ld.so.preload:")) { status_seen = 1; status_ok = starts_with(m, "/etc/ld.so.preload:            OK - Snoopy is enabled."); } }
static void refuse_point(void){ __CPROVER_assert(expect_refuse, "cli: the command refuses (non-zero exit) only where the statement says so"); __CPROVER_assert(written == 0, "cli: a refusing command leaves the file untouched"); }
void verif_on_fatal(void){ refuse_point(); }
/* expected content after disable: the own entry removed and nothing else */
static char expbuf[256];
static void remove_own(const char *c){ size_t i = 0, o = 0, own = sizeof(OWN) - 1; int done = 0;
  while (c[i]) { size_t s = i; while (c[i] && c[i] != '\n') i++; size_t n = i - s; int nl = c[i] == '\n';
    if (!done && n > 0 && c[s] != '#' && line_is_own(c + s, n)) { done = 1; size_t k = s + own; while (k < i && (c[k] == ' ' || c[k] == '\t')) k++;
      if (k < i && c[k] != '#') { for (; k < i; k++) expbuf[o++] = c[k]; if (nl) expbuf[o++] = '\n'; } }
    else { for (size_t k = s; k < i; k++) expbuf[o++] = c[k]; if (nl) expbuf[o++] = '\n'; }
    if (nl) i++; }
  expbuf[o] = 0; }
static void one(const char *content){
  verif_scan_t r = scan(content);
  cur_content = content; captured = 0; written = 0; exit_status = -1; status_seen = 0;
#ifdef MODE_ENABLE
  expect_refuse = (!r.own_active && r.foreign_active);
  int rc = snoopy_cli_action_enable();
  __CPROVER_assert(!expect_refuse, "enable: another active libsnoopy.so line makes the command refuse");
  if (r.own_active) {
    __CPROVER_assert(rc == 0 && written == 0, "enable: the entry is already active => the file stays byte-identical");
    if (r.active_mentions == 1) { cur_content = content; snoopy_cli_action_status(); __CPROVER_assert(status_seen && status_ok, "enable: afterwards status reports the entry as present"); }
  }
  else {
    size_t n = 0; while (content[n]) n++;
    __CPROVER_assert(rc == 0 && written == 1, "enable: the new content is written exactly once");
    remove_own("");                                  /* build the expected text in expbuf */
    size_t o = 0; for (size_t k = 0; k < n; k++) expbuf[o++] = content[k]; if (n > 0 && content[n - 1] != '\n') expbuf[o++] = '\n';
    for (size_t k = 0; k < sizeof(OWN) - 1; k++) expbuf[o++] = OWN[k]; expbuf[o++] = '\n'; expbuf[o] = 0;
    __CPROVER_assert(same_text(captured, expbuf), "enable: new content = old content, a newline if it lacked the final one, the library path and a newline");
    /* enabling twice equals enabling once; status reports the entry */
    const char *after = captured; cur_content = after; written = 0; expect_refuse = 0;
    rc = snoopy_cli_action_enable();
    __CPROVER_assert(rc == 0 && written == 0, "enable: enabling twice equals enabling once");
    cur_content = after; snoopy_cli_action_status();
    __CPROVER_assert(status_seen && status_ok, "enable: afterwards status reports the entry as present");
  }
#else
  expect_refuse = (r.active_mentions >= 2);
  int rc = snoopy_cli_action_disable();
  __CPROVER_assert(!expect_refuse, "disable: duplicate active entries make the command refuse");
  if (!r.own_active) __CPROVER_assert(rc == 0 && written == 0, "disable: the entry is absent => the file is left untouched");
  else { remove_own(content);
    __CPROVER_assert(rc == 0 && written == 1 && same_text(captured, expbuf), "disable: only the library's own entry is removed; every other library (also on the entry's line) and every other line stays, byte for byte"); }
  /* round trip: disable(enable(x)) == x for x empty or newline-terminated and not mentioning the library */
  { size_t n = 0; while (content[n]) n++;
    if (!r.own_active && !r.foreign_active && !r.active_mentions && !line_mentions(content, n) && (n == 0 || content[n - 1] == '\n')) {
      cur_content = content; written = 0; captured = 0; expect_refuse = 0; snoopy_cli_action_enable(); const char *mid = captured;
      cur_content = mid; written = 0; captured = 0; snoopy_cli_action_disable();
      __CPROVER_assert(written == 1 && same_text(captured, content), "disable right after enable restores the original content"); } }
#endif
}
#define X(i, c) if (which == i) { one(c); }
void harness(void){
  verif_ghost_init();
  int which = nondet_int(); __CPROVER_assume(which >= 0 && which < NCASES);
  VERIF_CANARY();            /* before the dispatch: a refusing command legitimately ends its path */
  CASES(X)
}
