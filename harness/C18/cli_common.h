/* C18/C19 — the real snoopy_cli_action_enable / _disable / _status (src/cli/action-*.c) and the real entry-search functions of
 * src/cli/cli-subroutines.c (included textually so that its file-I/O and path functions can be replaced by models: the renaming is
 * preprocessor-only, no function body is touched).  Models: readFile returns a copy of the current content, writeFile captures the
 * new content, libsnoopySo_getFilePath* return the library path, fatalError ends the run with a non-zero status. */
#include "verif_harness.h"
#include "snoopy.h"
#define OWN "/usr/local/lib/libsnoopy.so"
/* ---- ghost ---- */
static const char *cur_content; static char *captured; static int written, exit_status = -1;
/* ---- textual inclusion with the I/O functions renamed away ---- */
#define etcLdSoPreload_readFile      verif_real_readFile
#define etcLdSoPreload_writeFile     verif_real_writeFile
#define etcLdSoPreload_getFilePath   verif_real_getFilePath
#define libsnoopySo_getFilePath      verif_real_getLibPath
#define libsnoopySo_getFilePathNoCheck verif_real_getLibPathNoCheck
#define libsnoopySo_load             verif_real_load
#define libsnoopySo_dlsym            verif_real_dlsym
#define fatalError                   verif_real_fatalError
#define fatalErrorValue              verif_real_fatalErrorValue
#define fatalErrorValueFree          verif_real_fatalErrorValueFree
#define printMessage                 verif_real_printMessage
#include "cli/cli-subroutines.c"
#undef etcLdSoPreload_readFile
#undef etcLdSoPreload_writeFile
#undef etcLdSoPreload_getFilePath
#undef libsnoopySo_getFilePath
#undef libsnoopySo_getFilePathNoCheck
#undef libsnoopySo_load
#undef libsnoopySo_dlsym
#undef fatalError
#undef fatalErrorValue
#undef fatalErrorValueFree
#undef printMessage
char *etcLdSoPreload_readFile(void){ g_etcLdSoPreloadPath = "/etc/ld.so.preload"; return strdup(cur_content); }
void etcLdSoPreload_writeFile(char *n){ written++; captured = strdup(n); }
const char *etcLdSoPreload_getFilePath(void){ return "/etc/ld.so.preload"; }
char *libsnoopySo_getFilePath(void){ return OWN; }
char *libsnoopySo_getFilePathNoCheck(void){ return OWN; }
void verif_on_fatal(void);
void fatalError(const char * const m){ (void)m; exit_status = 127; verif_on_fatal(); __CPROVER_assume(0); }
void fatalErrorValue(const char * const m, const char * const v){ (void)m; (void)v; exit_status = 127; verif_on_fatal(); __CPROVER_assume(0); }
int verif_fprintf_core(FILE *fp, const char *fmt, int nargs, verif_arg_t a0, verif_arg_t a1, verif_arg_t a2){ (void)fp; (void)fmt; (void)nargs; (void)a0; (void)a1; (void)a2; return 1; }
int access(const char *p, int m){ (void)p; (void)m; return 0; }
char *getenv(const char *n){ (void)n; return 0; }
int dl_iterate_phdr(int (*cb)(struct dl_phdr_info *, size_t, void *), void *d){ (void)cb; (void)d; return 0; }
void *dlopen(const char *f, int fl){ (void)f; (void)fl; return (void *)1; } void *dlsym(void *h, const char *n){ (void)h; (void)n; return (void *)2; } int dlclose(void *h){ (void)h; return 0; }
/* ---- line-based reference, written from the property statement (concrete inputs: plain C) ---- */
static int starts_with(const char *s, const char *p){ size_t i = 0; while (p[i]) { if (s[i] != p[i]) return 0; i++; } return 1; }
static int line_mentions(const char *l, size_t n){ const char *k = "libsnoopy.so"; for (size_t i = 0; i + 12 <= n; i++) { size_t j = 0; while (j < 12 && l[i + j] == k[j]) j++; if (j == 12) return 1; } return 0; }
static int line_is_own(const char *l, size_t n){ size_t o = sizeof(OWN) - 1; if (n < o || !starts_with(l, OWN)) return 0; char c = n == o ? 0 : l[o]; return c == 0 || c == ' ' || c == '\t' || c == '#'; }
typedef struct { int own_active, foreign_active, active_mentions; } verif_scan_t;
static verif_scan_t scan(const char *c){ verif_scan_t r = {0, 0, 0}; size_t i = 0;
  while (c[i]) { size_t s = i; while (c[i] && c[i] != '\n') i++; size_t n = i - s;
    if (n > 0 && c[s] != '#') { if (line_is_own(c + s, n)) r.own_active++; else if (line_mentions(c + s, n)) r.foreign_active++; if (line_mentions(c + s, n)) r.active_mentions++; }
    if (c[i] == '\n') i++; }
  return r; }
static int same_text(const char *a, const char *b){ size_t i = 0; while (a[i] && a[i] == b[i]) i++; return a[i] == b[i]; }
