/* C10 — a child created by fork() from a multithreaded process.  fork's contract: the child's memory is the parent's memory
 * at an ARBITRARY instant, with only the calling thread.  So all tsrm globals are havocked without any invariant (mutex
 * possibly owned by a thread that does not exist in the child, list possibly mid-update with arbitrary pointers, once-control
 * done) — that over-approximates every point at which another thread can be stopped inside the library.  Then every atfork
 * CHILD handler registered by the library runs, then a complete wrapped call (real tsrm ctor/accessors/dtor).
 * Obligations: no lock on a mutex owned by a non-existent thread (would block forever), memory-safe, one registered thread. */
#include "verif_harness.h"
#include "verif_thread.h"
#include "snoopy.h"
#include "configuration.h"
#include "inputdatastorage.h"
void snoopy_error_handler(char const * const m){ (void)m; }
int snoopy_configfile_load(char *p){ (void)p; return -1; }
listNode_t *nondet_nodeptr(void);
void harness(void){
  verif_ghost_init(); verif_thread_init();
  /* ---- in the parent, some time before the fork: the library was initialised by an earlier wrapped call ---- */
  pthread_t parent_thread = verif_self;
  snoopy_tsrm_ctor(); snoopy_tsrm_dtor();                 /* registers whatever the library registers (once) */
  __CPROVER_assert(verif_once_done, "parent: library initialised");
  /* ---- fork(): arbitrary instant; only the calling thread survives, under a new thread identity ---- */
  verif_self = (pthread_t)nondet_ulong(); __CPROVER_assume(verif_self != parent_thread);
  verif_depth = nondet_int(); __CPROVER_assume(verif_depth >= 0 && verif_depth <= 3);
  verif_owner = (pthread_t)nondet_ulong(); __CPROVER_assume(verif_depth == 0 || verif_owner != verif_self);   /* held, if at all, by a thread that is gone */
  snoopy_tsrm_threadRepo_data.first = nondet_nodeptr(); snoopy_tsrm_threadRepo_data.last = nondet_nodeptr(); snoopy_tsrm_threadRepo_data.count = nondet_int();
  /* ---- the child's atfork handlers ---- */
  for (int i = 0; i < 2; i++) if (i < verif_n_atfork && verif_atfork_child[i]) verif_atfork_child[i]();
  /* ---- the child's exec call ---- */
  snoopy_tsrm_ctor();
  __CPROVER_assert(snoopy_tsrm_get_threadCount() == 1, "child: exactly one registered thread during its call");
  snoopy_configuration_t *c = snoopy_configuration_get();
  snoopy_inputdatastorage_t *i = snoopy_inputdatastorage_get();
  __CPROVER_assert(c != 0 && i != 0, "child: the call has its own records");
  snoopy_tsrm_dtor();
  __CPROVER_assert(verif_depth == 0, "child: all locks released, the real exec is reached");
  VERIF_CANARY();
}
