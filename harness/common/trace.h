/* helpers to state effect-trace postconditions */
#pragma once
#include "verif_effects.h"
static inline int verif_count(int kind){ int c = 0; for (int i = 0; i < VERIF_NEV; i++) if (i < verif_nev && verif_ev[i].kind == kind) c++; return c; }
static inline int verif_count_ok(int kind){ int c = 0; for (int i = 0; i < VERIF_NEV; i++) if (i < verif_nev && verif_ev[i].kind == kind && verif_ev[i].ok) c++; return c; }
static inline int verif_first(int kind){ for (int i = 0; i < VERIF_NEV; i++) if (i < verif_nev && verif_ev[i].kind == kind) return i; return -1; }
