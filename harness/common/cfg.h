/* an ARBITRARY configuration record satisfying the representation invariant RI(CFG):
 *   X_malloced == TRUE  => X is a freeable heap string;  X_malloced == FALSE => X is a literal
 * (this over-approximates every earlier history of calls and configuration files) */
#pragma once
#include "verif_harness.h"
#include "snoopy.h"
#include "configuration.h"
#ifdef VERIF_NATIVE
#include <string.h>
static inline snoopy_configuration_t nondet_cfg(void){ snoopy_configuration_t c; memset(&c, 0, sizeof c); return c; }   /* native replay: fields are set explicitly below */
#else
snoopy_configuration_t nondet_cfg(void);
#endif
#ifdef VERIF_CFG_CONCRETE
/* content-level (pack C) runs: symbolic allocation sizes combined with byte loops exhaust memory in cbmc (probed), so the
   previously stored strings are 4-byte heap objects with arbitrary content (their content is never the subject there) */
static inline char *verif_heap_string(void){ char *p = malloc(4); __CPROVER_assume(p != 0); p[0] = nondet_char(); p[1] = nondet_char(); p[2] = nondet_char(); p[3] = 0; return p; }
#else
static inline char *verif_heap_string(void){
  size_t n = nondet_size_t(); __CPROVER_assume(n >= 1 && n <= 1024);   /* INI values are < 1024 bytes */
  char *p = malloc(n); __CPROVER_assume(p != 0); p[n - 1] = 0; return p; }
#endif
/* non-owned values reachable in the code: the compiled-in literal; for output_arg also "" (parseValue_output, value without ':') */
#define VERIF_RI_FIELD(c, X, FLAG, lit) do { if (nondet_bool()) { (c)->X = verif_heap_string(); (c)->FLAG = SNOOPY_TRUE; } \
      else { (c)->FLAG = SNOOPY_FALSE; (c)->X = (lit); } } while (0)
static inline void verif_mk_cfg(snoopy_configuration_t *c){
  *c = nondet_cfg();
  snoopy_configuration_t d; snoopy_configuration_setDefaults(&d);
  c->initialized = SNOOPY_TRUE;
  c->configfile_path = SNOOPY_CONFIGFILE_PATH;
  c->configfile_enabled = d.configfile_enabled; c->filtering_enabled = d.filtering_enabled;   /* written only by setDefaults */
  VERIF_RI_FIELD(c, message_format, message_format_malloced, SNOOPY_MESSAGE_FORMAT);
  VERIF_RI_FIELD(c, filter_chain, filter_chain_malloced, SNOOPY_FILTER_CHAIN);
  VERIF_RI_FIELD(c, output, output_malloced, SNOOPY_OUTPUT_DEFAULT);
  VERIF_RI_FIELD(c, output_arg, output_arg_malloced, SNOOPY_OUTPUT_DEFAULT_ARG);
  if (c->output_arg_malloced == SNOOPY_FALSE && nondet_bool()) c->output_arg = "";
  VERIF_RI_FIELD(c, syslog_ident_format, syslog_ident_format_malloced, SNOOPY_SYSLOG_IDENT_FORMAT);
}
/* what the record owns is released by the destructor (C11); harnesses that do not run it release it here so that
   --memory-leak-check speaks only about the function under test */
static inline void verif_free_cfg(snoopy_configuration_t *c){
  if (c->message_format_malloced == SNOOPY_TRUE) free(c->message_format);
  if (c->filter_chain_malloced == SNOOPY_TRUE) free(c->filter_chain);
  if (c->output_malloced == SNOOPY_TRUE) free(c->output);
  if (c->output_arg_malloced == SNOOPY_TRUE) free(c->output_arg);
  if (c->syslog_ident_format_malloced == SNOOPY_TRUE) free(c->syslog_ident_format);
}
