/* C01 — the real interposers execv/execve (src/entrypoint/execve-wrapper.c), callees by contract.
 * The caller's vectors are real objects of symbolic size so that "handed over untouched" can
 * be checked at a ghost index (no quantifier): contents after the call == contents before. */
#include "verif_prelude.h"
#include "c01.h"
#include <errno.h>
struct verif_c01_s verif_c01;
extern char **environ;
int verif_real_execve(const char *f, char *const a[], char *const e[]){
  verif_c01.real_calls++; verif_c01.r_f = f; verif_c01.r_a = a; verif_c01.r_e = e; verif_c01.r_has_e = 1; verif_c01.r_phase = verif_c01.phase;
  verif_c01.r_ret = nondet_int(); verif_c01.r_errno = nondet_int(); errno = verif_c01.r_errno; return verif_c01.r_ret; }
int verif_real_execv(const char *f, char *const a[]){
  verif_c01.real_calls++; verif_c01.r_f = f; verif_c01.r_a = a; verif_c01.r_e = 0; verif_c01.r_has_e = 0; verif_c01.r_phase = verif_c01.phase;
  verif_c01.r_ret = nondet_int(); verif_c01.r_errno = nondet_int(); errno = verif_c01.r_errno; return verif_c01.r_ret; }
/* dlsym(RTLD_NEXT, name): the next definition of that name is libc's (trusted: dynamic linker) */
void *dlsym(void *h, const char *name){
  __CPROVER_assert(h == (void *)-1L, "dlsym: handle is RTLD_NEXT");
  if (name[0]=='e' && name[1]=='x' && name[2]=='e' && name[3]=='c' && name[4]=='v' && name[5]=='e' && name[6]==0) return (void *)verif_real_execve;
  if (name[0]=='e' && name[1]=='x' && name[2]=='e' && name[3]=='c' && name[4]=='v' && name[5]==0) return (void *)verif_real_execv;
  __CPROVER_assert(0, "dlsym: asked for the interposed function's own name");
  return 0; }

static char **mk_vec(size_t *n){            /* NULL, or a vector of *n entries (any pointers) + terminator */
  if (nondet_bool()) { *n = 0; return 0; }
  size_t k = nondet_size_t(); __CPROVER_assume(k <= 100000);
  char **v = malloc((k + 1) * sizeof(char *)); __CPROVER_assume(v != 0);
  *n = k; return v; }

#ifdef H_EXECVE
void harness(void){
  const char *f = nondet_bool() ? 0 : (const char *)malloc(1);
  size_t na, ne; char **a = mk_vec(&na); char **e = mk_vec(&ne);
  size_t ia = nondet_size_t(), ie = nondet_size_t();
  char *sa = 0, *se = 0; if (a) { __CPROVER_assume(ia <= na); sa = a[ia]; } if (e) { __CPROVER_assume(ie <= ne); se = e[ie]; }
  char **env0 = environ;
  verif_c01.phase = 0; verif_c01.real_calls = 0;
  int r = execve(f, a, e);
  __CPROVER_assert(verif_c01.real_calls == 1, "real exec called exactly once");
  __CPROVER_assert(verif_c01.r_phase == 3, "real exec entered only after init, log and cleanup finished");
  __CPROVER_assert(verif_c01.r_f == f && verif_c01.r_a == a && verif_c01.r_e == e, "path, argv, envp handed over pointer-identical");
  __CPROVER_assert(!a || a[ia] == sa, "argv entries untouched (ghost index)");
  __CPROVER_assert(!e || e[ie] == se, "envp entries untouched (ghost index)");
  __CPROVER_assert(environ == env0, "process environment pointer untouched");
  __CPROVER_assert(r == verif_c01.r_ret && errno == verif_c01.r_errno, "return value and errno delivered unchanged");
  VERIF_CANARY();
}
#else
void harness(void){
  const char *f = nondet_bool() ? 0 : (const char *)malloc(1);
  size_t na; char **a = mk_vec(&na);
  size_t ia = nondet_size_t(); char *sa = 0; if (a) { __CPROVER_assume(ia <= na); sa = a[ia]; }
  char **env0 = environ;
  verif_c01.phase = 0; verif_c01.real_calls = 0;
  int r = execv(f, a);
  __CPROVER_assert(verif_c01.real_calls == 1, "real exec called exactly once");
  __CPROVER_assert(verif_c01.r_phase == 3, "real exec entered only after init, log and cleanup finished");
  __CPROVER_assert(verif_c01.r_f == f && verif_c01.r_a == a && !verif_c01.r_has_e, "path, argv handed over pointer-identical to real execv (current environment)");
  __CPROVER_assert(!a || a[ia] == sa, "argv entries untouched (ghost index)");
  __CPROVER_assert(environ == env0, "process environment pointer untouched");
  __CPROVER_assert(r == verif_c01.r_ret && errno == verif_c01.r_errno, "return value and errno delivered unchanged");
  VERIF_CANARY();
}
#endif
