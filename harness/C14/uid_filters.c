/* C14 (bounded, content level) — real snoopy_filter_only_uid / exclude_uid / only_root + real csvToArgList.
 * One run per LIST TEMPLATE: 'd' = an arbitrary decimal digit, 'x' = an arbitrary byte that is no digit/comma/NUL, ',' literal.
 * The decimal value of an item is DEFINED by the decimal-conversion model of pack C (the same one the code is linked with), applied
 * by the harness to the item in place; re-deriving it independently makes the solver prove multiplier equivalences and never
 * finishes for 10-digit uids (probed).  For well-formed lists (non-empty items of digits, value <= 4294967295) and every 32-bit real
 * uid (effective uid different): only_uid passes exactly when the real uid is listed, exclude_uid exactly when it is not, and they
 * never agree; only_root passes exactly real uid 0.  Malformed lists must only be memory-safe and answer pass or drop. */
#include "verif_harness.h"
#include "snoopy.h"
#include "filter/only_uid.h"
#include "filter/exclude_uid.h"
#include "filter/only_root.h"
#ifndef TEMPLATE
#define TEMPLATE "d,d"
#endif
static uid_t the_uid, the_euid;
uid_t getuid(void){ return the_uid; }
uid_t geteuid(void){ return the_euid; }
void harness(void){
  verif_ghost_init();
  static const char tmpl[] = TEMPLATE; enum { N = sizeof tmpl - 1 };
  char arg[N + 1];
  for (unsigned i = 0; i < N; i++) {
    if (tmpl[i] == 'd') { unsigned char x = (unsigned char)nondet_uint(); __CPROVER_assume(x <= 9); arg[i] = (char)('0' + x); }
    else if (tmpl[i] == 'x') { char c = nondet_char(); __CPROVER_assume(c != 0 && c != ',' && !(c >= '0' && c <= '9')); arg[i] = c; }
    else arg[i] = tmpl[i]; }
  arg[N] = 0;
  /* items of the template (concrete positions) */
  unsigned starts[N + 1], lens[N + 1]; int nitems = 0, wellformed = 1; unsigned s0 = 0;
  for (unsigned i = 0; i <= N; i++) if (tmpl[i] == ',' || tmpl[i] == 0) { starts[nitems] = s0; lens[nitems] = i - s0; nitems++; s0 = i + 1; }
  if (N == 0) { nitems = 0; }
  long vals[N + 1];
  for (int j = 0; j < nitems; j++) {
    if (lens[j] == 0 || lens[j] > 10) wellformed = 0;
    for (unsigned k = 0; k < lens[j]; k++) if (tmpl[starts[j] + k] != 'd' && !(tmpl[starts[j] + k] >= '0' && tmpl[starts[j] + k] <= '9')) wellformed = 0;
    vals[j] = atol(arg + starts[j]);                       /* the decimal value of item j (model definition) */
    if (vals[j] > 4294967295L) wellformed = 0; }
  if (N == 0) wellformed = 1;                              /* the empty list is well-formed and lists nobody */
  int member = nondet_bool();
  the_uid = (uid_t)nondet_uint(); the_euid = (uid_t)nondet_uint();
  if (member) { int k = nondet_int(); __CPROVER_assume(nitems > 0 && k >= 0 && k < nitems); __CPROVER_assume((long)the_uid == vals[k]); }
  else for (int j = 0; j < nitems; j++) __CPROVER_assume((long)the_uid != vals[j]);
  __CPROVER_assume(the_euid != the_uid);
  int o = snoopy_filter_only_uid(arg);
  int e = snoopy_filter_exclude_uid(arg);
  int r = snoopy_filter_only_root(arg);
  __CPROVER_assert(r == (the_uid == 0 ? SNOOPY_FILTER_PASS : SNOOPY_FILTER_DROP), "only_root: passes exactly the calls of real uid 0 (not the effective uid)");
  __CPROVER_assert((o == SNOOPY_FILTER_PASS || o == SNOOPY_FILTER_DROP) && (e == SNOOPY_FILTER_PASS || e == SNOOPY_FILTER_DROP), "uid filters: always answer pass or drop");
  if (wellformed) {
    __CPROVER_assert(o == (member ? SNOOPY_FILTER_PASS : SNOOPY_FILTER_DROP), "only_uid: passes exactly when the real uid is in the list");
    __CPROVER_assert(e == (member ? SNOOPY_FILTER_DROP : SNOOPY_FILTER_PASS), "exclude_uid: passes exactly when the real uid is not in the list");
    __CPROVER_assert(o != e, "only_uid and exclude_uid never agree on a well-formed list");
  }
  VERIF_CANARY();
}
