/* C06/C01 (unbounded, loop-free) — nothing of an earlier call survives into a later one.
 * For an ARBITRARY prior state of the input-data record (havocked, 'initialized' any value: this over-approximates every
 * earlier history incl. NULL-argv calls and alternating execv/execve), after the real snoopy_entrypoint_execve_wrapper_init
 * the record the data sources read is exactly (filename, argv, envp) of THIS call; after ..._wrapper_exit it holds the static
 * empty defaults, i.e. no caller pointer survives (execv stores a pointer to its own stack array).  Both builds.
 * Also the frame needed by C01: the wrapper only stores the three pointers, it never dereferences or writes through them. */
#include "verif_harness.h"
#include "snoopy.h"
#include "inputdatastorage.h"
#include "entrypoint/execve-wrapper.h"
snoopy_inputdatastorage_t nondet_ids(void);
#ifdef H_NOTHREADS
extern snoopy_inputdatastorage_t snoopy_inputdatastorage_data;
#define IDSP (&snoopy_inputdatastorage_data)
#else
static snoopy_inputdatastorage_t verif_ids;
#define IDSP (&verif_ids)
snoopy_inputdatastorage_t *snoopy_tsrm_get_inputdatastorage(void){ return &verif_ids; }   /* tsrm contract (C09): my own record */
void snoopy_tsrm_ctor(void){} void snoopy_tsrm_dtor(void){}
#endif
void snoopy_configuration_ctor(void){} void snoopy_configuration_dtor(void){}               /* own runs under C11 */
int snoopy_action_log_syscall_exec_dummy;
void harness(void){
  verif_ghost_init();
  *IDSP = nondet_ids();                                   /* whatever earlier calls left behind */
  const char *f = nondet_bool() ? (const char *)0 : (const char *)malloc(1);
  size_t na = nondet_size_t(); __CPROVER_assume(na <= 1000);
  char **a = nondet_bool() ? (char **)0 : malloc((na + 1) * sizeof(char *));
  char **e = nondet_bool() ? (char **)0 : malloc(sizeof(char *));
  size_t gi = nondet_size_t(); char *sa = 0; if (a) { __CPROVER_assume(gi <= na); sa = a[gi]; }
  snoopy_entrypoint_execve_wrapper_init(f, a, e);
  snoopy_inputdatastorage_t *ids = snoopy_inputdatastorage_get();
  __CPROVER_assert(ids->filename == f && ids->argv == a && ids->envp == e, "after init: path, argv and envp seen by the data sources are those of the current call, whatever came before");
  __CPROVER_assert(!a || a[gi] == sa, "init: the caller's argument vector is not written (ghost index)");
  snoopy_entrypoint_execve_wrapper_exit();
  snoopy_inputdatastorage_t *ids2 = IDSP;
  __CPROVER_assert(ids2->initialized == SNOOPY_TRUE && ids2->filename != f && ids2->filename != 0 && ids2->filename[0] == 0, "after exit: the stored path is the empty default, not the caller's pointer");
  __CPROVER_assert((a == 0 || ids2->argv != a) && ids2->argv != 0 && ids2->argv[0] == 0 && (e == 0 || ids2->envp != e) && ids2->envp != 0 && ids2->envp[0] == 0, "after exit: the stored vectors are the empty defaults, no caller pointer survives the call");
  VERIF_CANARY();
}
