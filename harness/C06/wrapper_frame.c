/* C01/C06 — the two wrapper phases enforced against their frame contracts (contracts/wrapper.h) with goto-instrument --dfcc, arbitrary
 * prior record, arbitrary (also NULL) path and vectors.  Content postconditions live in history.c (DFCC re-initialises the library's
 * static default objects nondeterministically, so they cannot be stated here). */
#include "verif_harness.h"
#include "snoopy.h"
#include "inputdatastorage.h"
#include "entrypoint/execve-wrapper.h"
snoopy_inputdatastorage_t nondet_ids(void);
snoopy_inputdatastorage_t verif_ids;
snoopy_inputdatastorage_t *snoopy_tsrm_get_inputdatastorage(void){ return &verif_ids; }   /* tsrm contract (C09): my own record */
void snoopy_tsrm_ctor(void){} void snoopy_tsrm_dtor(void){}
void snoopy_configuration_ctor(void){} void snoopy_configuration_dtor(void){}               /* own runs under C11 */
void harness(void){
  verif_ghost_init();
  verif_ids = nondet_ids();
  const char *f = nondet_bool() ? (const char *)0 : (const char *)malloc(1);
  size_t na = nondet_size_t(); __CPROVER_assume(na <= 1000);
  char **a = nondet_bool() ? (char **)0 : malloc((na + 1) * sizeof(char *));
  char **e = nondet_bool() ? (char **)0 : malloc(sizeof(char *));
#ifdef H_EXIT
  snoopy_entrypoint_execve_wrapper_exit();
#else
  snoopy_entrypoint_execve_wrapper_init(f, a, e);
#endif
  VERIF_CANARY();
}
