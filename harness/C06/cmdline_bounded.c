/* C06 (bounded, content level) — real snoopy_datasource_cmdline / snoopy_datasource_filename against the statement:
 * cmdline = the argument strings joined by single spaces, or the path when the vector is missing/empty ("(unknown)" if the
 * path is missing too); filename = the path; longer than the buffer => a prefix; result NUL-terminated inside the buffer;
 * nothing beyond resultBufSize is written; return value = untruncated length. */
#include "verif_harness.h"
#include "snoopy.h"
#include "inputdatastorage.h"
#include "datasource/cmdline.h"
#include "datasource/filename.h"
#ifndef NARG
#define NARG 3
#endif
#ifndef ARGLEN
#define ARGLEN 3
#endif
#define BUFMAX 10
static snoopy_inputdatastorage_t ids;
snoopy_inputdatastorage_t *snoopy_inputdatastorage_get(void){ return &ids; }     /* contract of inputdatastorage (C06 history run): the current call's record */
static char args[NARG][ARGLEN + 1]; static char *argv[NARG + 1]; static char path[ARGLEN + 1];
static char expect[NARG * (ARGLEN + 1) + 16];
void harness(void){
  verif_ghost_init();
  for (int i = 0; i < NARG; i++) { for (int k = 0; k < ARGLEN; k++) args[i][k] = nondet_char(); args[i][ARGLEN] = 0; }
  for (int k = 0; k < ARGLEN; k++) path[k] = nondet_char(); path[ARGLEN] = 0;
  int argc = nondet_int(); __CPROVER_assume(argc >= 0 && argc <= NARG);
  for (int i = 0; i < NARG; i++) argv[i] = i < argc ? &args[i][0] : (char *)0; argv[NARG] = 0;
  int shape = nondet_int();            /* 0: normal vector, 1: argv == NULL, 2: path == NULL as well */
  ids.initialized = SNOOPY_TRUE; ids.filename = shape == 2 ? (const char *)0 : &path[0]; ids.argv = (shape == 1 || shape == 2) ? (char **)0 : &argv[0]; ids.envp = 0;
  /* reference string */
  size_t el = 0;
  if (ids.argv == 0 || argc == 0) { const char *src = ids.filename ? ids.filename : "(unknown)"; for (size_t k = 0; src[k]; k++) expect[el++] = src[k]; }
  else for (int i = 0; i < argc; i++) { if (i > 0) expect[el++] = ' '; for (size_t k = 0; args[i][k]; k++) expect[el++] = args[i][k]; }
  expect[el] = 0;
  char buf[BUFMAX]; size_t n = nondet_size_t(); __CPROVER_assume(n >= 1 && n <= BUFMAX);
  for (int k = 0; k < BUFMAX; k++) buf[k] = 0x55;
  size_t gi = nondet_size_t(); __CPROVER_assume(gi < BUFMAX);
  int which = nondet_bool(); int r;
  if (which) r = snoopy_datasource_cmdline(buf, n, "");
  else { __CPROVER_assume(ids.filename != 0); r = snoopy_datasource_filename(buf, n, ""); el = 0; for (size_t k = 0; path[k]; k++) expect[el++] = path[k]; expect[el] = 0; }
  size_t want = el < n - 1 ? el : n - 1;                    /* bytes that fit */
  __CPROVER_assert(gi < n || buf[gi] == 0x55, "cmdline/filename: nothing is written beyond resultBufSize (ghost index)");
  __CPROVER_assert(buf[want] == 0, "cmdline/filename: the result is NUL-terminated at min(length, resultBufSize-1)");
  __CPROVER_assert(gi >= want || buf[gi] == expect[gi], "cmdline/filename: the value is the arguments joined by single spaces (or the path), or a prefix of it (ghost index)");
  __CPROVER_assert(r >= 0 && (size_t)r >= want, "cmdline/filename: reports success (a non-negative length, at least what was stored)");
  VERIF_CANARY();
}
