/* C06/C02 (size level; bounded in the NUMBER of arguments only) — real snoopy_datasource_cmdline: arguments of any length,
 * every resultBufSize 1..1048577: the running offset never passes the buffer, every snprintf gets a size that fits. */
#include "verif_harness.h"
#include "snoopy.h"
#include "inputdatastorage.h"
#include "datasource/cmdline.h"
#define NARG 5
static snoopy_inputdatastorage_t ids;
snoopy_inputdatastorage_t *snoopy_inputdatastorage_get(void){ return &ids; }
void harness(void){
  verif_ghost_init();
  char *argv[NARG + 1];
  int argc = nondet_int(); __CPROVER_assume(argc >= 0 && argc <= NARG);
  for (int i = 0; i < NARG; i++) argv[i] = i < argc ? verif_mk_string(2000000) : (char *)0;
  argv[NARG] = 0;
  ids.initialized = SNOOPY_TRUE; ids.filename = nondet_bool() ? (const char *)0 : verif_mk_string(5000); ids.argv = nondet_bool() ? (char **)0 : &argv[0]; ids.envp = 0;
  size_t n = nondet_size_t(); __CPROVER_assume(n >= 1 && n <= 1048577);
  char *buf = malloc(n);
  int r = snoopy_datasource_cmdline(buf, n, "");
  __CPROVER_assert(r >= 0, "cmdline: reports success");
  VERIF_CANARY();
}
