/* C15 (bounded, exhaustive over the generated case list) — real snoopy_filter_exclude_spawns_of with a /proc model: the calling
 * process's ancestors are chain[0] (parent), chain[1], ... up to pid 1 whose parent is 0; /proc/<pid>/stat delivers
 * "<pid> (<name>) S <ppid> ..." ; from level `unreadable` on fopen fails.  Reference from the statement: DROP exactly when some
 * readable ancestor (walking up from the parent) has a name equal to a non-empty list item; PASS otherwise, also when the tree
 * cannot be read.  Every case is concrete and runs on its own path. */
#include "verif_harness.h"
#include "snoopy.h"
#include "filter/exclude_spawns_of.h"
#include "c15_cases.h"
static int depth, unreadable; static const char *names[3]; static int self_asked;
#define PID0 100
pid_t getppid(void){ return PID0; }
pid_t getpid(void){ return 99; }
typedef struct { int open; int level; } vfile_t; static vfile_t vf; static int opens, closes, next_level, wrong_pid;
static size_t put_s(char *b, size_t o, const char *s){ for (size_t k = 0; s[k]; k++) b[o++] = s[k]; return o; }
static size_t put_d(char *b, size_t o, int v){ char t[12]; int k = 0; do { t[k++] = (char)('0' + v % 10); v /= 10; } while (v > 0 && k < 11); while (k > 0) b[o++] = t[--k]; return o; }
FILE *fopen(const char *path, const char *mode){ (void)mode;
  /* the walk must ask for /proc/<pid of the ancestor it is at>/stat: parent first, then its parent, ... */
  char want[40]; size_t o = put_s(want, 0, "/proc/"); o = put_d(want, o, PID0 + next_level); o = put_s(want, o, "/stat"); want[o] = 0;
  size_t k = 0; while (want[k] && path[k] == want[k]) k++; if (want[k] != path[k]) wrong_pid = 1;
  int lvl = next_level;
  if (lvl >= depth) return 0;
  if (unreadable >= 0 && lvl >= unreadable) return 0;
  __CPROVER_assert(!vf.open, "procfs model: one stat file at a time"); vf.open = 1; vf.level = lvl; opens++; next_level++; return (FILE *)&vf; }
size_t fread(void *buf, size_t sz, size_t n, FILE *fp){ __CPROVER_assert(fp == (FILE *)&vf && vf.open, "fread: on the open stat file");
  char line[64]; int lvl = vf.level; int ppid = (lvl + 1 < depth) ? PID0 + lvl + 1 : 0;
  size_t o = put_d(line, 0, PID0 + lvl); o = put_s(line, o, " ("); o = put_s(line, o, names[lvl]); o = put_s(line, o, ") S "); o = put_d(line, o, ppid); o = put_s(line, o, " 0 0 0");
  size_t tot = sz * n; size_t k = 0; for (; k < o && k < tot; k++) ((char *)buf)[k] = line[k]; return k; }
/* line-oriented readers see the same text, cut after its first newline (a process name may contain one) */
char *fgets(char *buf, int n, FILE *fp){ __CPROVER_assert(fp == (FILE *)&vf && vf.open && n > 0, "fgets: on the open stat file");
  char line[64]; int lvl = vf.level; int ppid = (lvl + 1 < depth) ? PID0 + lvl + 1 : 0;
  size_t o = put_d(line, 0, PID0 + lvl); o = put_s(line, o, " ("); o = put_s(line, o, names[lvl]); o = put_s(line, o, ") S "); o = put_d(line, o, ppid); o = put_s(line, o, " 0 0 0\n");
  size_t k = 0; for (; k < o && k + 1 < (size_t)n; k++) { buf[k] = line[k]; if (line[k] == '\n') { k++; break; } } buf[k] = 0; return buf; }
int fclose(FILE *fp){ __CPROVER_assert(fp == (FILE *)&vf && vf.open, "fclose: on the open stat file"); vf.open = 0; closes++; return 0; }
static int eq(const char *a, const char *b, size_t n){ size_t i = 0; while (i < n && a[i] && a[i] == b[i]) i++; return i == n && a[i] == 0; }
static int spec(const char *list){
  for (int l = 0; l < depth; l++) { if (unreadable >= 0 && l >= unreadable) return SNOOPY_FILTER_PASS;
    size_t i = 0; while (1) { size_t s = i; while (list[i] && list[i] != ',') i++; if (i > s && eq(names[l], list + s, i - s)) return SNOOPY_FILTER_DROP; if (!list[i]) break; i++; } }
  return SNOOPY_FILTER_PASS; }
static void one(int d, const char *n0, const char *n1, const char *n2, const char *list, int unr){
  depth = d; names[0] = n0; names[1] = n1; names[2] = n2; unreadable = unr; vf.open = 0; opens = closes = 0; self_asked = 0; next_level = 0; wrong_pid = 0;
  int r = snoopy_filter_exclude_spawns_of(list);
  __CPROVER_assert(r == spec(list), "exclude_spawns_of: drops exactly when an ancestor's name equals a listed name; passes otherwise, also when the process tree cannot be read");
  __CPROVER_assert(!wrong_pid, "exclude_spawns_of: the walk starts at the parent (not the process itself) and follows the parent ids it reads");
  __CPROVER_assert(opens == closes && !vf.open, "exclude_spawns_of: every stat file opened is closed");
}
#define X(i, d, n0, n1, n2, l, u) if (which == i) { one(d, n0, n1, n2, l, u); }
void harness(void){
  verif_ghost_init();
  const int which = 0;          /* one concrete case per run */
  CASES(X)
  VERIF_CANARY();
}
