/* C17/C04/C16/C03 — real snoopy_output_fileoutput (and devtty/devnull which delegate), every record length
 * 1..1048575, stdio buffer capacity symbolic.  H_FAIL: every I/O call may fail. */
#include "verif_harness.h"
#include "common/trace.h"
#include "snoopy.h"
#include "output/fileoutput.h"
#include "output/devttyoutput.h"
#include "output/devnulloutput.h"
void harness(void){
  verif_ghost_init();
  char *msg = verif_mk_string(1048575); size_t len = verif_str[0].len; __CPROVER_assume(len >= 1);
  char *arg = verif_mk_string(1023);    size_t alen = verif_str[1].len;
#ifdef H_FAIL
  verif_effects_init(msg, len, 1);
#else
  verif_effects_init(msg, len, 0);
#endif
  char m0 = msg[verif_msg_idx];
  int which = nondet_int(); int r;
  if (which == 0) r = snoopy_output_fileoutput(msg, arg);
  else if (which == 1) r = snoopy_output_devttyoutput(msg, arg);
  else r = snoopy_output_devnulloutput(msg, arg);
  __CPROVER_assert(msg[verif_msg_idx] == m0, "output: the message is not modified (ghost index)");
  __CPROVER_assert(verif_fd_open == 0, "output: every descriptor opened is closed again on every path");
  VERIF_ASSERT_SIGNALS_UNTOUCHED();
#ifndef H_FAIL
  if (which == 0 && alen == 0) {
    __CPROVER_assert(verif_nev == 0 && r == SNOOPY_OUTPUT_FAILURE, "file output without a path: no effect at all");
  } else {
    int o = verif_first(EV_OPEN), w = verif_first(EV_WRITE);
    __CPROVER_assert(verif_count(EV_OPEN) == 1 && o >= 0 && (verif_ev[o].flags & O_APPEND) && !(verif_ev[o].flags & O_TRUNC) && (verif_ev[o].flags & (O_WRONLY | O_RDWR)), "file output: the destination is opened exactly once, for appending, never truncating");
    __CPROVER_assert(verif_count(EV_WRITE) == 1, "file output: the record reaches the descriptor in exactly one write(2)");
    __CPROVER_assert(w > o && verif_ev[w].fd == verif_ev[o].fd && verif_ev[w].len == len + 1, "file output: that write is strlen(message)+1 bytes on the descriptor opened for appending");
    __CPROVER_assert(verif_content_ok, "file output: the bytes written are the message followed by a newline (ghost index)");
    __CPROVER_assert(verif_count(EV_SOCKET) == 0 && verif_count(EV_SEND) == 0, "file output: nothing is emitted anywhere else");
    __CPROVER_assert(r == (int)(len + 1), "file output: returns the number of bytes written");
  }
#else
  __CPROVER_assert(verif_count_ok(EV_WRITE) <= 1, "file output under faults: never more than one write(2) of the record");
  /* whichever way the destination ends up being opened (first attempt, or a fallback after ENOENT/EEXIST/...): every descriptor the record
     is written to was opened for appending and never truncating - a record written at a fixed offset overwrites other writers' records */
  for (int i = 0; i < VERIF_NEV; i++) if (i < verif_nev && verif_ev[i].kind == EV_OPEN && verif_ev[i].ok)
    __CPROVER_assert((verif_ev[i].flags & O_APPEND) && !(verif_ev[i].flags & O_TRUNC), "file output under faults: every successful open of the destination is O_APPEND, never O_TRUNC");
#endif
  VERIF_CANARY();
}
