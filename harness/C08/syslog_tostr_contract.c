/* C08 — real syslog name converters enforced against contracts/syslog_tostr.h with goto-instrument --dfcc, every int */
#include "verif_harness.h"
#include "util/syslog-snoopy.h"
void harness(void){
  int v = nondet_int();
#ifdef H_FACILITY
  const char *r = snoopy_util_syslog_convertFacilityToStr(v);
#else
  const char *r = snoopy_util_syslog_convertLevelToStr(v);
#endif
  (void)r;
  VERIF_CANARY();
}
