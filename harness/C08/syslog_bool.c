/* C08 (complete: comparison lengths are bounded by the literals) — booleans by first letter; syslog facility/level
 * case-insensitively with optional LOG_ prefix per the documented tables (etc/snoopy.ini.in); anything else leaves the
 * compiled-in default; the conf round trip ToStr -> parse is the identity on every table entry. */
#include "verif_harness.h"
#include "common/cfg.h"
#include "snoopy.h"
#include "configfile.h"
#include "util/syslog-snoopy.h"
#include <syslog.h>
static snoopy_configuration_t verif_cfg;
snoopy_configuration_t *snoopy_tsrm_get_configuration(void){ return &verif_cfg; }
#ifndef N
#define N 15
#endif
#ifndef H_PART
#define H_PART 0  /* 0 boolean, 1 facility, 2 level, 3 table round trips */
#endif
static const char *FN[] = {"AUTH","AUTHPRIV","CRON","DAEMON","FTP","KERN","LOCAL0","LOCAL1","LOCAL2","LOCAL3","LOCAL4","LOCAL5","LOCAL6","LOCAL7","LPR","MAIL","NEWS","SYSLOG","USER","UUCP"};
static const int FV[] = {LOG_AUTH,LOG_AUTHPRIV,LOG_CRON,LOG_DAEMON,LOG_FTP,LOG_KERN,LOG_LOCAL0,LOG_LOCAL1,LOG_LOCAL2,LOG_LOCAL3,LOG_LOCAL4,LOG_LOCAL5,LOG_LOCAL6,LOG_LOCAL7,LOG_LPR,LOG_MAIL,LOG_NEWS,LOG_SYSLOG,LOG_USER,LOG_UUCP};
static const char *LN[] = {"EMERG","ALERT","CRIT","ERR","WARNING","NOTICE","INFO","DEBUG"};
static const int LV[] = {LOG_EMERG,LOG_ALERT,LOG_CRIT,LOG_ERR,LOG_WARNING,LOG_NOTICE,LOG_INFO,LOG_DEBUG};
static int up(int c){ return (c >= 'a' && c <= 'z') ? c - 32 : c; }
static int ieq(const char *v, const char *name){ size_t i = 0; while (name[i] && up(v[i] & 0xff) == name[i]) i++; return name[i] == 0 && v[i] == 0; }
static const char *strip(const char *v){ return (up(v[0]) == 'L' && up(v[1]) == 'O' && up(v[2]) == 'G' && v[3] == '_') ? v + 4 : v; }
void harness(void){
  verif_ghost_init();
#ifdef VLEN
  char v[VLEN + 1]; for (int i = 0; i < VLEN; i++) { v[i] = nondet_char(); __CPROVER_assume(v[i] != 0); } v[VLEN] = 0;   /* every value of exactly VLEN bytes; runs enumerate VLEN */
#else
  char v[N]; for (int i = 0; i < N - 1; i++) v[i] = nondet_char(); v[N - 1] = 0;
#endif
  verif_mk_cfg(&verif_cfg);
  int old_err = verif_cfg.error_logging_enabled;
#if H_PART == 0
  /* boolean */
  snoopy_configfile_parseValue_error_logging(v, &verif_cfg);
  int yes = (v[0]=='y'||v[0]=='Y'||v[0]=='1'||v[0]=='t'||v[0]=='T'), no = (v[0]=='n'||v[0]=='N'||v[0]=='0'||v[0]=='f'||v[0]=='F');
  __CPROVER_assert(verif_cfg.error_logging_enabled == (yes ? SNOOPY_TRUE : no ? SNOOPY_FALSE : old_err), "error_logging: boolean by first letter, anything else leaves the previous value");
#endif
  const char *s = strip(v);
#if H_PART == 1
  /* facility */
  snoopy_configfile_parseValue_syslog_facility(v, &verif_cfg);
  int wantF = SNOOPY_SYSLOG_FACILITY;
  for (int i = 0; i < 20; i++) if (ieq(s, FN[i])) wantF = FV[i];
  __CPROVER_assert(verif_cfg.syslog_facility == wantF, "syslog_facility: documented table, case-insensitive, optional LOG_ prefix; anything else => compiled-in default");
#endif
#if H_PART == 2
  /* level */
  snoopy_configfile_parseValue_syslog_level(v, &verif_cfg);
  int wantL = SNOOPY_SYSLOG_LEVEL;
  for (int i = 0; i < 8; i++) if (ieq(s, LN[i])) wantL = LV[i];
  __CPROVER_assert(verif_cfg.syslog_level == wantL, "syslog_level: documented table, case-insensitive, optional LOG_ prefix; anything else => compiled-in default");
#endif
#if H_PART == 3
  /* round trip over the tables */
  int k = nondet_int(); __CPROVER_assume(k >= 0 && k < 20);
  __CPROVER_assert(snoopy_util_syslog_convertFacilityToInt(snoopy_util_syslog_convertFacilityToStr(FV[k])) == FV[k], "conf round trip: every facility prints to a name that parses back to it");
  int m = nondet_int(); __CPROVER_assume(m >= 0 && m < 8);
  __CPROVER_assert(snoopy_util_syslog_convertLevelToInt(snoopy_util_syslog_convertLevelToStr(LV[m])) == LV[m], "conf round trip: every level prints to a name that parses back to it");
#endif
  verif_free_cfg(&verif_cfg);
  VERIF_CANARY();
}
