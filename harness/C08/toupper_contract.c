/* C08/C11 — real snoopy_util_string_toUpper enforced against contracts/string_toupper.h with goto-instrument --dfcc and the
 * sidecar loop contract loops/toupper.json: every buffer size 1..4096, every terminator position, every start offset, every content. */
#include "verif_harness.h"
#include "util/string-snoopy.h"
char *verif_up_base; size_t verif_up_len;
void harness(void){
  size_t bufSize = nondet_size_t(); __CPROVER_assume(bufSize >= 1 && bufSize <= 4096);
  char *buf = malloc(bufSize);
  size_t len = nondet_size_t(); __CPROVER_assume(len < bufSize);
  size_t off = nondet_size_t(); __CPROVER_assume(off <= len);
  buf[len] = 0;
  verif_up_base = buf; verif_up_len = len;
  snoopy_util_string_toUpper(buf + off);
}
