/* C08/C02 (complete) — real snoopy_util_parser_strByteLength on every input: in range, no overflow, zero/absent => default */
#include "verif_harness.h"
#include "snoopy.h"
#include "util/parser-snoopy.h"
void harness(void){
  verif_ghost_init();
  char a[24]; for (int i = 0; i < 23; i++) a[i] = nondet_char(); a[23] = 0;
  int r1 = snoopy_util_parser_strByteLength(a, SNOOPY_DATASOURCE_MESSAGE_MAX_LENGTH_HARDMIN, SNOOPY_DATASOURCE_MESSAGE_MAX_LENGTH_HARDMAX, SNOOPY_DATASOURCE_MESSAGE_MAX_LENGTH_DEFAULT);
  __CPROVER_assert(r1 >= 255 && r1 <= 1048575, "byte length: always inside 255..1048575");
  int alldigits0 = 1; int i = 0; while (i < 18 && a[i] >= '0' && a[i] <= '9') { if (a[i] != '0') alldigits0 = 0; i++; }
  if (alldigits0) __CPROVER_assert(r1 == SNOOPY_DATASOURCE_MESSAGE_MAX_LENGTH_DEFAULT, "byte length: no digits or only zeros => the built-in default");
  if (a[0] >= '1' && a[0] <= '9' && a[1] >= '0' && a[1] <= '9' && a[2] >= '0' && a[2] <= '9' && a[3] >= '0' && a[3] <= '9' && a[4] >= '0' && a[4] <= '9' && a[5] >= '0' && a[5] <= '9' && a[6] >= '0' && a[6] <= '9' && a[7] >= '0' && a[7] <= '9')
    __CPROVER_assert(r1 == 1048575, "byte length: numbers of 8 or more digits (any suffix) give the maximum — large numbers never fall back to a small value");
  VERIF_CANARY();
}
