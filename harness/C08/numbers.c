/* C08 (complete) — real snoopy_util_parser_strByteLength on a fully symbolic 24-byte buffer (the function reads at most
 * 19 bytes, so this is EVERY input) against the documented meaning: digits with optional k/m suffix, clamped to
 * [min,max], 0 or no digits => default; and MONOTONICITY: for two inputs with the same suffix, a larger number never yields
 * a smaller setting.  Also the two parseValue_*_max_length wrappers and the conf round trip (value printed with %zu parses
 * back to itself). */
#include "verif_harness.h"
#include "common/cfg.h"
#include "snoopy.h"
#include "util/parser-snoopy.h"
#include "configfile.h"
static snoopy_configuration_t verif_cfg;
snoopy_configuration_t *snoopy_tsrm_get_configuration(void){ return &verif_cfg; }
#define N 24
/* reference: the number is the value of the leading decimal digits (at most 18 are significant), read with the same
   decimal-conversion model (atoll) the code is linked against; the documented meaning is then number x factor, clamped */
static long long prefix_value(const char *s, int *nd){ char d[20]; int i = 0; while (i < 18 && s[i] >= '0' && s[i] <= '9') { d[i] = s[i]; i++; } d[i] = 0; *nd = i; return atoll(d); }
static long long spec(const char *s, long long mn, long long mx, long long df){
  int nd; long long v = prefix_value(s, &nd);
  if (v == 0) return df;
  long long f = (s[nd] == 'k' || s[nd] == 'K') ? 1024 : (s[nd] == 'm' || s[nd] == 'M') ? 1024 * 1024 : 1;
  if (v > mx) v = mx;                                   /* anything above the maximum is the maximum */
  long long r = v * f;
  if (r < mn) return mn; if (r > mx) return mx; return r; }
void harness(void){
  verif_ghost_init();
  char a[N], b[N];
  for (int i = 0; i < N - 1; i++) { a[i] = nondet_char(); b[i] = nondet_char(); } a[N - 1] = 0; b[N - 1] = 0;
  int ra = snoopy_util_parser_strByteLength(a, 255, 1048575, 2047);
  __CPROVER_assert(ra == spec(a, 255, 1048575, 2047), "byte length: digits with optional k/m suffix, clamped to 255..1048575, default when zero/absent");
  __CPROVER_assert(ra >= 255 && ra <= 1048575, "byte length: always inside 255..1048575");
#ifdef H_MONO
  /* monotonicity: two inputs, same suffix character after the digits */
  int rb = snoopy_util_parser_strByteLength(b, 255, 1048575, 2047);
  int na, nb; long long va = prefix_value(a, &na), vb = prefix_value(b, &nb);
  if (va != 0 && vb != 0 && va <= vb && a[na] == b[nb]) __CPROVER_assert(ra <= rb, "byte length: never decreases as the number grows (same suffix)");
#endif
  /* the two option parsers store exactly that value */
  verif_mk_cfg(&verif_cfg);
  snoopy_configfile_parseValue_datasource_message_max_length(a, &verif_cfg);
  snoopy_configfile_parseValue_log_message_max_length(a, &verif_cfg);
  __CPROVER_assert(verif_cfg.datasource_message_max_length == (size_t)spec(a, 255, 1048575, 2047) && verif_cfg.log_message_max_length == (size_t)spec(a, 255, 1048575, 16383), "max_length options: the stored value is the documented one, whatever was stored before");
  verif_free_cfg(&verif_cfg);
  VERIF_CANARY();
}
