/* C08 (bounded, content level) — output = name[:argument] split at the FIRST ':', unknown name => default output and argument;
 * string options (message_format, filter_chain, syslog_ident) verbatim; all independent of what was stored before (so the last
 * occurrence wins); callback: other sections and unknown keys change nothing; conf round trip for output. */
#include "verif_harness.h"
#include "common/cfg.h"
#include "snoopy.h"
#include "configfile.h"
#include "outputregistry.h"
#ifndef H_PART
#define H_PART 0   /* 0: output; 1: output + conf round trip; 2: message_format; 3: filter_chain; 4: syslog_ident; 5: callback dispatch */
#endif
#ifndef VMAX
#define VMAX 8
#endif
static snoopy_configuration_t verif_cfg;
snoopy_configuration_t *snoopy_tsrm_get_configuration(void){ return &verif_cfg; }
static int same(const char *a, const char *b, size_t n){ size_t gi = nondet_size_t(); __CPROVER_assume(gi <= n); return a[gi] == b[gi]; }   /* ghost index */
void harness(void){
  verif_ghost_init();
  char v[VMAX + 1]; for (int i = 0; i < VMAX; i++) v[i] = nondet_char(); v[VMAX] = 0;
  size_t vl = 0; while (v[vl]) vl++;
  verif_mk_cfg(&verif_cfg);
  const int which = H_PART <= 1 ? 0 : H_PART - 1;     /* concrete per run: a symbolic choice between the parsers exhausts the solver's memory (probed) */
  if (which == 0) {
    snoopy_configfile_parseValue_output(v, &verif_cfg);
    size_t c = 0; while (v[c] && v[c] != ':') c++;
    char name[VMAX + 1]; for (size_t i = 0; i < VMAX + 1; i++) name[i] = i < c ? v[i] : 0;
    const char *arg = v[c] == ':' ? v + c + 1 : ""; size_t al = v[c] == ':' ? vl - c - 1 : 0;
    if (snoopy_outputregistry_doesNameExist(name) == SNOOPY_TRUE) {
      __CPROVER_assert(verif_cfg.output[c] == 0 && same(verif_cfg.output, name, c), "output: the name is the text before the first ':'");
      __CPROVER_assert(verif_cfg.output_arg[al] == 0 && same(verif_cfg.output_arg, arg, al), "output: the argument is everything after the first ':' (or empty), whatever was stored before");
    } else {
      __CPROVER_assert(verif_cfg.output == SNOOPY_OUTPUT_DEFAULT && verif_cfg.output_arg == SNOOPY_OUTPUT_DEFAULT_ARG && !verif_cfg.output_malloced && !verif_cfg.output_arg_malloced, "output: an unknown output name leaves the built-in default output and argument in force");
    }
#if H_PART == 1
    /* conf round trip */
    char *shown = snoopy_configfile_getOptionValueAsString_output();
    snoopy_configuration_t before = verif_cfg; char n1[VMAX + 8], a1[VMAX + 8]; size_t i1 = 0;
    for (; i1 < VMAX + 7 && verif_cfg.output[i1]; i1++) n1[i1] = verif_cfg.output[i1]; n1[i1] = 0; size_t j1 = 0;
    for (; j1 < VMAX + 7 && verif_cfg.output_arg[j1]; j1++) a1[j1] = verif_cfg.output_arg[j1]; a1[j1] = 0;
    snoopy_configfile_parseValue_output(shown, &verif_cfg);
    __CPROVER_assert(verif_cfg.output[i1] == 0 && same(verif_cfg.output, n1, i1) && verif_cfg.output_arg[j1] == 0 && same(verif_cfg.output_arg, a1, j1), "conf round trip: the shown output value parses back to the same output and argument");
    free(shown);
#endif
  } else if (which == 1) { snoopy_configfile_parseValue_message_format(v, &verif_cfg); __CPROVER_assert(verif_cfg.message_format[vl] == 0 && same(verif_cfg.message_format, v, vl), "message_format: stored verbatim, whatever was stored before");
  } else if (which == 2) { snoopy_configfile_parseValue_filter_chain(v, &verif_cfg); __CPROVER_assert(verif_cfg.filter_chain[vl] == 0 && same(verif_cfg.filter_chain, v, vl), "filter_chain: stored verbatim, whatever was stored before");
  } else if (which == 3) { snoopy_configfile_parseValue_syslog_ident(v, &verif_cfg); __CPROVER_assert(verif_cfg.syslog_ident_format[vl] == 0 && same(verif_cfg.syslog_ident_format, v, vl), "syslog_ident: stored verbatim, whatever was stored before");
  } else {
    /* callback dispatch: a section other than [snoopy], or an unknown key, changes nothing */
    snoopy_configuration_t before = verif_cfg;
    /* representative names (concrete literals; symbolic names make every option parser symbolically reachable and exhaust the solver) */
    static const char *secs[] = { "", "snoop", "snoopyx", "Snoopy", "other" };
    static const char *keys[] = { "", "outpu", "outputx", "Output", "unknown_option", "message_forma" };
    int r;
#ifndef H_CB
#define H_CB 0
#endif
    /* one concrete (section, key) pair per run: a symbolic choice keeps all nine option parsers symbolically reachable through the
       function-pointer table and exhausts the solver's memory (probed) */
    if (H_CB < 5) r = snoopy_configfile_iniParser_callback(&verif_cfg, secs[H_CB], "output", v);
    else r = snoopy_configfile_iniParser_callback(&verif_cfg, "snoopy", keys[H_CB - 5], v);
    __CPROVER_assert(r == 1, "callback: always reports the line as handled");
    __CPROVER_assert(verif_cfg.output == before.output && verif_cfg.output_arg == before.output_arg && verif_cfg.message_format == before.message_format && verif_cfg.filter_chain == before.filter_chain && verif_cfg.syslog_ident_format == before.syslog_ident_format
       && verif_cfg.syslog_facility == before.syslog_facility && verif_cfg.syslog_level == before.syslog_level && verif_cfg.error_logging_enabled == before.error_logging_enabled
       && verif_cfg.datasource_message_max_length == before.datasource_message_max_length && verif_cfg.log_message_max_length == before.log_message_max_length, "callback: other sections and unknown keys leave every option untouched");
  }
  verif_free_cfg(&verif_cfg);
  VERIF_CANARY();
}
