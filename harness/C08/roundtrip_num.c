/* C08 (complete over the option's range) — conf round trip for the two length options: the text snoopyctl conf prints
 * (real getOptionValueAsString_*, "%zu") parses back (real strByteLength) to the same setting, for every value 255..1048575. */
#include "verif_harness.h"
#include "common/cfg.h"
#include "snoopy.h"
#include "configfile.h"
static snoopy_configuration_t verif_cfg;
snoopy_configuration_t *snoopy_tsrm_get_configuration(void){ return &verif_cfg; }
int snoopy_configfile_load(char *p){ (void)p; return -1; }
void harness(void){
  verif_ghost_init();
  snoopy_configuration_setDefaults(&verif_cfg);
  size_t v = nondet_size_t(); __CPROVER_assume(v >= 255 && v <= 1048575);
  verif_cfg.datasource_message_max_length = v; verif_cfg.log_message_max_length = v;
  char *s1 = snoopy_configfile_getOptionValueAsString_datasource_message_max_length();
  char *s2 = snoopy_configfile_getOptionValueAsString_log_message_max_length();
  verif_cfg.datasource_message_max_length = 0; verif_cfg.log_message_max_length = 0;
  snoopy_configfile_parseValue_datasource_message_max_length(s1, &verif_cfg);
  snoopy_configfile_parseValue_log_message_max_length(s2, &verif_cfg);
  __CPROVER_assert(verif_cfg.datasource_message_max_length == v && verif_cfg.log_message_max_length == v, "conf round trip: the printed length option parses back to the same setting");
  free(s1); free(s2);
  VERIF_CANARY();
}
