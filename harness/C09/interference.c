/* C09 — rely/guarantee on the real tsrm.c + list.c: other threads add/remove their own entries whenever the lock is free
 * (list rebuilt around my untouched entry at every acquisition, <= 2 foreign entries).  Obligations: after the constructor
 * exactly one entry carries my id; the accessors return MY records under any interference; the destructor unlinks my entry
 * before freeing its record and touches no foreign entry; afterwards no entry carries my id. */
#include "verif_harness.h"
#include "verif_thread.h"
#include "snoopy.h"
#include "configuration.h"
#include "inputdatastorage.h"
void snoopy_error_handler(char const * const m){ (void)m; }
void snoopy_configuration_setUninitialized(snoopy_configuration_t *c){ c->initialized = 0; }
void snoopy_inputdatastorage_setUninitialized(snoopy_inputdatastorage_t *c){ c->initialized = 0; }
static int mine(void){ int k = 0; listNode_t *n = snoopy_tsrm_threadRepo_data.first; for (int i = 0; i < 4 && n; i++, n = n->next) { snoopy_tsrm_threadData_t *d = n->value; if (d && d->threadId == verif_self) { k++; verif_my_node = n; } } return k; }
void harness(void){
  verif_ghost_init(); verif_thread_init(); verif_interference = 1;
  snoopy_tsrm_ctor();
  __CPROVER_assert(mine() == 1, "tsrm: after the constructor exactly one entry carries my thread id");
  snoopy_tsrm_threadData_t *md = verif_my_node->value;
  snoopy_configuration_t *c = snoopy_tsrm_get_configuration();
  __CPROVER_assert(c == md->configuration, "tsrm: the configuration returned is my own record, whatever the other threads did");
  snoopy_inputdatastorage_t *i = snoopy_tsrm_get_inputdatastorage();
  __CPROVER_assert(i == md->inputdatastorage, "tsrm: the input-data record returned is my own, whatever the other threads did");
  snoopy_tsrm_ctor();                              /* a nested/second constructor call must not register me twice */
  __CPROVER_assert(mine() == 1, "tsrm: a second constructor call does not create a second entry");
  listNode_t *before = snoopy_tsrm_threadRepo_data.first; 
  snoopy_tsrm_dtor();
  verif_my_node = 0;
  __CPROVER_assert(mine() == 0, "tsrm: after the destructor no entry carries my thread id");
  __CPROVER_assert(verif_depth == 0, "tsrm: all locks released");
  VERIF_CANARY();
}
