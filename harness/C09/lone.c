/* C09 — lock discipline (capability pointer) on the real tsrm.c + list.c + configuration/inputdatastorage accessors:
 * a lone wrapped call.  Every access to the repository happens with the lock held; all locks are released; the call
 * registers exactly one thread and leaves no per-thread state (count 1 then 0, nothing allocated). */
#include "verif_harness.h"
#include "verif_thread.h"
#include "snoopy.h"
#include "configuration.h"
#include "inputdatastorage.h"
void snoopy_error_handler(char const * const m){ (void)m; }
int snoopy_configfile_load(char *p){ (void)p; return -1; }
void harness(void){
  verif_ghost_init(); verif_thread_init(); verif_capability = 1; snoopy_tsrm_threadRepo = 0;
  snoopy_tsrm_ctor();
  __CPROVER_assert(verif_depth == 0, "tsrm: all locks released after the constructor");
  __CPROVER_assert(snoopy_tsrm_get_threadCount() == 1, "tsrm: exactly one registered thread during a lone call");
  snoopy_configuration_t *c = snoopy_configuration_get();
  snoopy_inputdatastorage_t *i = snoopy_inputdatastorage_get();
  __CPROVER_assert(c != 0 && i != 0 && c->initialized == SNOOPY_TRUE && i->initialized == SNOOPY_TRUE, "tsrm: the call has its own, initialised configuration and input records");
  __CPROVER_assert(verif_depth == 0, "tsrm: all locks released after the accessors");
  snoopy_tsrm_dtor();
  __CPROVER_assert(verif_depth == 0, "tsrm: all locks released after the destructor");
  __CPROVER_assert(snoopy_tsrm_get_threadCount() == 0, "tsrm: no per-thread state left after the call");
  __CPROVER_assert(verif_mutex_recursive, "tsrm: the repository mutex is recursive");
  VERIF_CANARY();
}
