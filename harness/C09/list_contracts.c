/* C09/C16 — the three list functions enforced against their local contracts (contracts/list.h) with goto-instrument --dfcc.  The error
 * handler is unreachable under the preconditions (a call would mean the repository is misused). */
#include "verif_harness.h"
#include "util/list.c"            /* the REAL translation unit, textually (its header has no include guard) */
#include "contracts/list.h"
void snoopy_error_handler(char const * const m){ (void)m; __CPROVER_assert(0, "list: the error path is unreachable under the contract's precondition"); }
void harness(void){
  list_t *l; listNode_t *n; void *v;
#if defined(H_PUSH)
  int r = snoopy_util_list_push(l, v); (void)r;
#elif defined(H_REMOVE)
  void *r = snoopy_util_list_remove(l, n); (void)r;
#else
  listNode_t *r = snoopy_util_list_fetchNextNode(l, n); (void)r;
#endif
  VERIF_CANARY();
}
