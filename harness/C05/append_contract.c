/* C05/C02 — real snoopy_util_string_append enforced against contracts/string_append.h with goto-instrument --dfcc:
 * every buffer size 1..1 MiB+1, every old length, every appended length (size level, pack S). */
#include "verif_harness.h"
#include "snoopy.h"
#include "util/string-snoopy.h"
struct verif_app_s verif_app;
void harness(void){
  verif_ghost_init();
  size_t bufSize = nondet_size_t(); __CPROVER_assume(bufSize >= 1 && bufSize <= 1048577);
  char *dest = malloc(bufSize);
  size_t dl = nondet_size_t(); __CPROVER_assume(dl < bufSize);
  dest[dl] = 0; if (dl > 0) __CPROVER_assume(dest[0] != 0);
  verif_register_string(dest, dl);
  char *app = verif_mk_string(2000000);
  size_t al = verif_str[1].len;
  verif_app.bufSize = bufSize; verif_app.dl = dl; verif_app.al = al; verif_app.dest = dest;
  int r = snoopy_util_string_append(dest, bufSize, app); (void)r;
  VERIF_CANARY();
}
