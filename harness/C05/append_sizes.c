/* C05/C02 — snoopy_util_string_append at size level, every buffer size and every length.
 * Postcondition from the property statement: the destination never holds more than bufSize-1
 * bytes (+NUL), i.e. "the message never exceeds log_message_max_length bytes"; and an append
 * either happens completely or not at all. */
#include "verif_harness.h"
#include "snoopy.h"
#include "util/string-snoopy.h"
void harness(void){
  verif_ghost_init();
  size_t bufSize = nondet_size_t(); __CPROVER_assume(bufSize >= 1 && bufSize <= 1048577);
  char *dest = malloc(bufSize);
  size_t dl = nondet_size_t(); __CPROVER_assume(dl < bufSize);
  dest[dl] = 0; if (dl > 0) __CPROVER_assume(dest[0] != 0);
  verif_register_string(dest, dl);          /* dest holds a string of length dl (exact) */
  char *app = verif_mk_string(2000000);
  size_t al = verif_str[1].len;
  int r = snoopy_util_string_append(dest, bufSize, app);
  __CPROVER_assert(r == SNOOPY_ERROR || r == (int)al, "append: returns appended length or SNOOPY_ERROR");
  __CPROVER_assert(r == SNOOPY_ERROR || dl + al <= bufSize - 1, "append: result (old length + appended) fits in bufSize-1 bytes plus NUL");
  __CPROVER_assert(r != SNOOPY_ERROR || dl + al > bufSize - 1, "append: refuses only when the result would not fit");
  VERIF_CANARY();
}
