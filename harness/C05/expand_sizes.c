/* C05/C02 (unbounded, size level) — real snoopy_message_generateFromFormat under its contract with a loop contract:
 * every format length up to 1023 (tag and argument lengths anywhere in it), every message buffer size 1..1048577 and every
 * per-data-source limit.  Proved: memory safety of all local buffers and pointer arithmetic, the frame (only the message
 * buffer is written), and that every size handed to snprintf/append/the data source fits its destination. */
#include "verif_harness.h"
#include "message.h"
size_t verif_fmt_len;
void snoopy_error_handler(char const * const m){ (void)m; }
void harness(void){
  verif_ghost_init();
  char *fmt = verif_mk_string(1023); verif_fmt_len = verif_str[0].len;
  size_t bs = nondet_size_t(), ds = nondet_size_t();
  __CPROVER_assume(bs >= 1 && bs <= 1048577 && ds >= 1 && ds <= 1048576);
  char *msg = malloc(bs); msg[0] = 0;
  snoopy_message_generateFromFormat(msg, bs, ds, fmt);
  VERIF_CANARY();
}
