/* C05 (bounded, content level) — real snoopy_message_generateFromFormat against an executable reference written from the
 * property statement: left-to-right scan for "%{" ... "}", tag split at the first ':', literal text verbatim, the documented
 * [ERROR: ...] texts (copied from doc/tests) for an unterminated tag, an unknown data source (after which, as documented by the
 * tests and the code's stated intent, expansion stops) and a failing data source.
 * Data sources are behind the registry contract: names 'a','b' known (output: first byte = first byte of the argument or 'A'/'B',
 * then a fixed symbolic number of 'x'; as a well-behaved data source it stores at most bufSize-1 bytes and returns the full
 * length), 'f' known and failing with message "E"; everything else unknown.
 * Checked: (1) the message never exceeds logMessageBufSize-1 bytes; (2) every data source is given a buffer of exactly
 * dataSourceMsgMaxLength+1 bytes, so it contributes at most dataSourceMsgMaxLength bytes; (3) its argument is the tag's text
 * after the first ':' or ""; (4) whenever the full expansion fits both limits, the message equals the reference exactly. */
#include "verif_harness.h"
#include "snoopy.h"
#include "message.h"
#ifndef FMT_MAX
#define FMT_MAX 7
#endif
#ifndef BUF
#define BUF 64
#endif
#ifndef DS
#define DS 3
#endif
static size_t La, Lb;                       /* output lengths of the two data sources (symbolic, fixed per run) */
static int ds_bad_size, ds_calls, arg_bad; static const char *exp_arg[4]; static int exp_arg_len[4]; static int exp_calls;
static int known(const char *n){ return (n[0] == 'a' || n[0] == 'b' || n[0] == 'f') && n[1] == 0; }
int snoopy_datasourceregistry_doesNameExist(char const * const n){ return known(n); }
void snoopy_error_handler(char const * const m){ (void)m; }
int snoopy_datasourceregistry_callByName(char const * const n, char * const buf, size_t sz, char const * const arg){
  if (sz != DS + 1) ds_bad_size = 1;
  if (!known(n)) return -1;
  /* (3) argument check against what the reference derived for this call */
  if (ds_calls < 4 && ds_calls < exp_calls) { int l = exp_arg_len[ds_calls]; for (int k = 0; k < 4; k++) if (k < l && arg[k] != exp_arg[ds_calls][k]) arg_bad = 1; if (arg[l < 4 ? l : 4] != 0 && l < 4) arg_bad = 1; } else arg_bad = 1;
  ds_calls++;
  if (n[0] == 'f') { if (sz > 1) { buf[0] = 'E'; buf[1] = 0; } else if (sz == 1) buf[0] = 0; return SNOOPY_DATASOURCE_FAILURE; }
  size_t L = n[0] == 'a' ? La : Lb; size_t w = 0;
  for (size_t k = 0; k < 3; k++) if (k < L && w + 1 < sz) { buf[w++] = k == 0 ? (arg[0] ? arg[0] : (n[0] == 'a' ? 'A' : 'B')) : 'x'; }
  if (sz > 0) buf[w] = 0;
  return (int)L; }
/* ---- reference ---- */
static char E[FMT_MAX * 4 + 140]; static size_t el; static int fits_ds;
static void put(const char *s){ for (size_t k = 0; s[k]; k++) E[el++] = s[k]; }
static void spec(const char *f){
  size_t i = 0; el = 0; exp_calls = 0; fits_ds = 1;
  for (;;) {
    size_t t = i; while (f[t] && !(f[t] == '%' && f[t + 1] == '{')) t++;
    for (size_t k = i; k < t; k++) E[el++] = f[k];                 /* literal text verbatim */
    if (!f[t]) break;
    size_t c = t; while (f[c] && f[c] != '}') c++;
    if (!f[c]) { put("[ERROR: Closing data source tag ('}') not found.]"); break; }
    size_t colon = t + 2; while (colon < c && f[colon] != ':') colon++;
    size_t nl = colon - (t + 2);
    const char *arg = colon < c ? f + colon + 1 : ""; int al = colon < c ? (int)(c - colon - 1) : 0;
    if (!(nl == 1 && (f[t + 2] == 'a' || f[t + 2] == 'b' || f[t + 2] == 'f'))) { put("[ERROR: Data source '"); for (size_t k = t + 2; k < colon; k++) E[el++] = f[k]; put("' not found.]"); break; }
    if (exp_calls < 4) { exp_arg[exp_calls] = arg; exp_arg_len[exp_calls] = al; } exp_calls++;
    char nm = f[t + 2];
    if (nm == 'f') { put("[ERROR: Data source 'f' failed with the following error message: 'E']"); if (DS < 1) fits_ds = 0; }
    else { size_t L = nm == 'a' ? La : Lb; if (L > DS) fits_ds = 0; for (size_t k = 0; k < 3; k++) if (k < L) E[el++] = k == 0 ? (al > 0 && arg[0] ? arg[0] : (nm == 'a' ? 'A' : 'B')) : 'x'; }
    i = c + 1;
  }
  E[el] = 0; }
void harness(void){
  verif_ghost_init();
  char fmt[FMT_MAX + 1]; for (int i = 0; i < FMT_MAX; i++) fmt[i] = nondet_char(); fmt[FMT_MAX] = 0;
  La = nondet_size_t(); Lb = nondet_size_t(); __CPROVER_assume(La <= 3 && Lb <= 3);
  ds_bad_size = ds_calls = arg_bad = 0;
  spec(fmt);
  char msg[BUF + 2]; for (int i = 0; i < BUF + 2; i++) msg[i] = 0x55; msg[0] = 0;
  snoopy_message_generateFromFormat(msg, BUF, DS, fmt);
  size_t ml = 0; while (ml < BUF + 1 && msg[ml] != 0) ml++;
  __CPROVER_assert(ml <= BUF - 1 && msg[BUF] == 0x55 && msg[BUF + 1] == 0x55, "expansion: the message never exceeds logMessageBufSize-1 bytes and nothing is written past the buffer");
  __CPROVER_assert(!ds_bad_size, "expansion: every data source gets a buffer of dataSourceMsgMaxLength+1 bytes (contributes at most dataSourceMsgMaxLength)");
  if (fits_ds && el <= BUF - 1) {
    __CPROVER_assert(!arg_bad && ds_calls == exp_calls, "expansion: each tag's data source is called once, left to right, with the text after the first ':' (or \"\") as argument");
    size_t gi = nondet_size_t(); __CPROVER_assume(gi <= el);
    __CPROVER_assert(ml == el && msg[gi] == E[gi], "expansion: whenever the full expansion fits the limits the message equals it exactly (ghost index)");
  }
  VERIF_CANARY();
}
