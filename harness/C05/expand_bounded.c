/* C05 (bounded, content level) — real snoopy_message_generateFromFormat against an executable reference written from the
 * property statement: left-to-right scan for "%{" ... "}", tag split at the first ':', literal text verbatim, the documented
 * [ERROR: ...] texts (copied from doc/tests) for an unterminated tag, an unknown data source (after which, as documented by the
 * tests and the code's stated intent, expansion stops) and a failing data source.
 * Data sources are behind the registry contract: names 'a','b' known (output: first byte = first byte of the argument or 'A'/'B',
 * then a fixed symbolic number of 'x'; as a well-behaved data source it stores at most bufSize-1 bytes and returns the full
 * length), 'f' known and failing with message "E"; everything else unknown.
 * Checked: (1) the message never exceeds logMessageBufSize-1 bytes; (2) every data source is given a buffer of exactly
 * dataSourceMsgMaxLength+1 bytes, so it contributes at most dataSourceMsgMaxLength bytes; (3) its argument is the tag's text
 * after the first ':' or ""; (4) whenever the full expansion fits both limits, the message equals the reference exactly. */
#include "verif_harness.h"
#include "snoopy.h"
#include "message.h"
#ifndef FMT_MAX
#define FMT_MAX 7
#endif
#ifndef BUF
#define BUF 64
#endif
#ifndef DS
#define DS 3
#endif
static size_t La, Lb; static int exp_calls_decl_dummy;                       /* output lengths of the two data sources (symbolic, fixed per run) */
static int ds_bad_size, ds_calls, arg_bad; static const char *exp_arg[4]; static int exp_arg_len[4]; static int exp_calls;
static int known(const char *n){ return (n[0] == 'a' || n[0] == 'b' || n[0] == 'f') && n[1] == 0; }
int snoopy_datasourceregistry_doesNameExist(char const * const n){ return known(n); }
void snoopy_error_handler(char const * const m){ (void)m; }
int snoopy_datasourceregistry_callByName(char const * const n, char * const buf, size_t sz, char const * const arg){
  if (sz != DS + 1) ds_bad_size = 1;
  if (!known(n)) return -1;
  /* (3) argument check against what the reference derived for this call */
  if (ds_calls < 4 && ds_calls < exp_calls) { int l = exp_arg_len[ds_calls]; for (int k = 0; k < 4; k++) if (k < l && arg[k] != exp_arg[ds_calls][k]) arg_bad = 1; if (arg[l < 4 ? l : 4] != 0 && l < 4) arg_bad = 1; } else arg_bad = 1;
  ds_calls++;
  if (n[0] == 'f') { if (sz > 1) { buf[0] = 'E'; buf[1] = 0; } else if (sz == 1) buf[0] = 0; return SNOOPY_DATASOURCE_FAILURE; }
  size_t L = n[0] == 'a' ? La : Lb; size_t w = 0;
  for (size_t k = 0; k < 3; k++) if (k < L && w + 1 < sz) { buf[w++] = k == 0 ? (arg[0] ? arg[0] : (n[0] == 'a' ? 'A' : 'B')) : 'x'; }
  if (sz > 0) buf[w] = 0;
  return (int)L; }
/* ---- reference: ONE left-to-right pass with a concrete position counter (a small state machine), so that no loop bound
   depends on symbolic data.  It does not build the expected string: it counts its length (el) and remembers the expected byte at
   one ghost position gi chosen by the harness (wc) ---- */
#define FLEN 24
static size_t el, gi; static char wc; static int fits_ds;
static void putc_(char c){ if (el == gi) wc = c; el++; }
static void put(const char *s){ for (size_t k = 0; s[k]; k++) putc_(s[k]); }
static void spec(const char *f){
  enum { LIT, NAME, ARG, DONE } st = LIT; int skip = 0; size_t namelen = 0, arglen = 0, argstart = 0; char name0 = 0, arg0 = 0; size_t namestart = 0;
  el = 0; exp_calls = 0; fits_ds = 1;
  for (size_t i = 0; i < FLEN; i++) {
    if (st == DONE) continue;
    char c = f[i];
    if (skip) { skip = 0; continue; }
    if (c == 0) { if (st == NAME || st == ARG) put("[ERROR: Closing data source tag ('}') not found.]"); st = DONE; continue; }
    if (st == LIT) { if (c == '%' && f[i + 1] == '{') { st = NAME; skip = 1; namelen = 0; namestart = i + 2; arglen = 0; arg0 = 0; } else putc_(c); continue; }
    if (c != '}') {
      if (st == NAME) { if (c == ':') { st = ARG; argstart = i + 1; } else { if (namelen == 0) name0 = c; namelen++; } }
      else { if (arglen == 0) arg0 = c; arglen++; }
      continue; }
    /* '}' closes the tag */
    int isknown = namelen == 1 && (name0 == 'a' || name0 == 'b' || name0 == 'f');
    if (!isknown) { put("[ERROR: Data source '"); for (size_t k = 0; k < FLEN; k++) if (k < namelen) putc_(f[namestart + k]); put("' not found.]"); st = DONE; continue; }
    if (exp_calls < 4) { exp_arg[exp_calls] = st == ARG ? f + argstart : ""; exp_arg_len[exp_calls] = st == ARG ? (int)arglen : 0; } exp_calls++;
    if (name0 == 'f') { put("[ERROR: Data source 'f' failed with the following error message: 'E']"); if (DS < 1) fits_ds = 0; }
    else { size_t L = name0 == 'a' ? La : Lb; if (L > DS) fits_ds = 0; for (size_t k = 0; k < 3; k++) if (k < L) putc_(k == 0 ? ((st == ARG && arglen > 0) ? arg0 : (name0 == 'a' ? 'A' : 'B')) : 'x'); }
    st = LIT;
  } }
void harness(void){
  verif_ghost_init();
#ifdef SHAPE
  /* concrete tag structure, symbolic content: every lower-case placeholder letter x,y,z,p,q,r of the template is replaced by an
     arbitrary byte other than % { } : NUL (fully symbolic formats make every string loop symbolic and the run intractable, probed) */
  static const char *shapes[] = { "xy%{a}z", "%{a:p}%{b}", "%{b}%{a:p}q", "x%{f}y", "x%{w}y", "x%{a", "xyz", "", "%{a:p:q}r", "%{b:pq}x%{a}y%{b}", "%{", "}x{%", "%{a}%{a}%{a}", "x%{:p}" };
  char fmt[FLEN + 2]; for (int z = 0; z < FLEN + 2; z++) fmt[z] = 0; { const char *t = shapes[SHAPE]; size_t k = 0; for (; t[k]; k++) { char c = t[k]; if (c == 'x' || c == 'y' || c == 'z' || c == 'p' || c == 'q' || c == 'r') { c = nondet_char(); __CPROVER_assume(c != '%' && c != '{' && c != '}' && c != ':' && c != 0); } fmt[k] = c; } fmt[k] = 0; }
#else
  char fmt[FMT_MAX + 1]; for (int i = 0; i < FMT_MAX; i++) fmt[i] = nondet_char(); fmt[FMT_MAX] = 0;
#endif
  La = nondet_size_t(); Lb = nondet_size_t(); __CPROVER_assume(La <= 3 && Lb <= 3);
  ds_bad_size = ds_calls = arg_bad = 0;
  gi = nondet_size_t(); __CPROVER_assume(gi < BUF);
  spec(fmt);
  char msg[BUF + 2]; for (int i = 0; i < BUF + 2; i++) msg[i] = 0x55; msg[0] = 0;
  snoopy_message_generateFromFormat(msg, BUF, DS, fmt);
  size_t ml = 0; while (ml < BUF + 1 && msg[ml] != 0) ml++;
  __CPROVER_assert(ml <= BUF - 1 && msg[BUF] == 0x55 && msg[BUF + 1] == 0x55, "expansion: the message never exceeds logMessageBufSize-1 bytes and nothing is written past the buffer");
  __CPROVER_assert(!ds_bad_size, "expansion: every data source gets a buffer of dataSourceMsgMaxLength+1 bytes (contributes at most dataSourceMsgMaxLength)");
  if (fits_ds && el <= BUF - 1) {
    __CPROVER_assert(!arg_bad && ds_calls == exp_calls, "expansion: each tag's data source is called once, left to right, with the text after the first ':' (or \"\") as argument");
    __CPROVER_assert(ml == el && (gi >= el || msg[gi] == wc), "expansion: whenever the full expansion fits the limits the message equals it exactly (ghost index)");
  }
  VERIF_CANARY();
}
