/* C05/C02 (size level; bounded only in the NUMBER of tags, <= 3) — real snoopy_message_generateFromFormat + real append:
 * formats of any length up to 1023 bytes with tags, names and arguments of any length in them, every message buffer size
 * 1..1048577 and every per-data-source limit 1..1048576.
 * Proved for that space: memory safety; each data source gets a buffer of exactly dataSourceMsgMaxLength+1 bytes (so it can
 * contribute at most dataSourceMsgMaxLength bytes); its argument is the tag text right after the first ':' or the empty string
 * (never something left over from an earlier tag); a data source is only called for a name the registry knows. */
#include "verif_harness.h"
#include "snoopy.h"
#include "message.h"
static size_t g_ds; static const char *last_colon; static int tags_found, arg_wrong, size_wrong, called_unknown, last_exist; static const char *last_name;
void snoopy_error_handler(char const * const m){ (void)m; }
#ifdef H_APPEND_STUB
/* contract model of snoopy_message_append (the real one + snoopy_util_string_append are proved for all sizes in C05.append.sizes):
   precondition checked at every call site; the message buffer's CONTENT is never read by generateFromFormat, so the model does not
   store into it (every store at a symbolic offset of the symbolic-size buffer multiplies cbmc's array constraints: > 8 GB per iteration) */
static size_t g_bs; static char *g_msg; static int append_bad;
void snoopy_message_append(char *logMessage, size_t logMessageBufSize, char const * const appendThis){
  __CPROVER_assert(logMessage == g_msg && logMessageBufSize == g_bs, "append precondition: the caller's message buffer with its true size");
  __CPROVER_assert(__CPROVER_r_ok(appendThis, 1), "append precondition: text to append readable"); (void)strlen(appendThis);
}
#endif
int snoopy_datasourceregistry_doesNameExist(char const * const n){ __CPROVER_assert(__CPROVER_r_ok(n, 1), "registry precondition: name readable"); (void)strlen(n); last_name = n; last_exist = nondet_bool(); return last_exist; }
int snoopy_datasourceregistry_callByName(char const * const n, char * const buf, size_t sz, char const * const arg){
  __CPROVER_assert(__CPROVER_r_ok(arg, 1) && sz >= 1 && __CPROVER_w_ok(buf, sz), "data source precondition: argument readable, result buffer of the given size writable");
  if (!(last_exist && last_name == n)) called_unknown = 1;
  if (sz != g_ds + 1) size_wrong = 1;
  if (last_colon ? (arg != last_colon + 1) : (arg[0] != 0)) arg_wrong = 1;
#ifndef H_APPEND_STUB
  __CPROVER_havoc_slice(buf, sz);
#endif
  size_t k = nondet_size_t(); __CPROVER_assume(k < sz); buf[k] = 0;
  return nondet_int(); }
/* the two strstr uses of the function, size level: "%{" / "}" in the format (tag search, at most 3 tags here) and ":" in the tag */
char *strstr(const char *h, const char *n){
  size_t hl = strlen(h), nl = strlen(n);
  int is_colon = (n[0] == ':'), is_open = (n[0] == '%');
  if (is_colon) last_colon = 0;
  if (nl > hl || nondet_bool()) return 0;
#ifndef H_MAXTAGS
#define H_MAXTAGS 3
#endif
  if (is_open) { if (tags_found >= H_MAXTAGS) return 0; tags_found++; }
  size_t k = nondet_size_t(); __CPROVER_assume(k <= hl - nl);
  if (is_open) __CPROVER_assume(h[k] == '%' && h[k + 1] == '{');
  else if (n[0] == '}') __CPROVER_assume(k >= 2 && h[k] == '}');          /* the first '}' after "%{" */
  if (is_colon) last_colon = h + k;
  return (char *)h + k; }
void harness(void){
  verif_ghost_init();
#ifndef FMTMAX
#define FMTMAX 1023
#define BSMAX 1048577
#define DSMAX 1048576
#endif
#ifdef H_CONCRETE
  /* concrete size tuple (format length, message buffer, data-source limit): cbmc's array encoding of symbolic-SIZE objects written at
     symbolic offsets explodes after a handful of appends (measured: one loop iteration > 8 GB), concrete-size objects are flattened */
  char *fmt = malloc(H_FMTLEN + 1); fmt[H_FMTLEN] = 0; if (H_FMTLEN > 0) __CPROVER_assume(fmt[0] != 0); verif_register_string(fmt, H_FMTLEN);
  size_t bs = H_BS; g_ds = H_DS;
#else
  char *fmt = verif_mk_string(FMTMAX);
  size_t bs = nondet_size_t(); g_ds = nondet_size_t();
  __CPROVER_assume(bs >= 1 && bs <= BSMAX && g_ds >= 1 && g_ds <= DSMAX);
#endif
  char *msg = malloc(bs); msg[0] = 0;
#ifdef H_APPEND_STUB
  g_bs = bs; g_msg = msg;
#endif
  tags_found = arg_wrong = size_wrong = called_unknown = last_exist = 0; last_colon = 0; last_name = 0;
  snoopy_message_generateFromFormat(msg, bs, g_ds, fmt);
  __CPROVER_assert(!size_wrong, "expansion: every data source gets a buffer of dataSourceMsgMaxLength+1 bytes (contributes at most dataSourceMsgMaxLength)");
  __CPROVER_assert(!arg_wrong, "expansion: a data source's argument is the tag's own text after its first ':' or the empty string");
  __CPROVER_assert(!called_unknown, "expansion: only data sources the registry knows are called");
  free(msg); free(fmt);
  VERIF_CANARY();
}
