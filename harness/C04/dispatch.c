/* C04 — real snoopy_action_log_message_dispatch -> snoopy_outputregistry_dispatch -> callByName with the REAL registry
 * tables; the outputs themselves are recording stubs.  Non-empty message: exactly one call, of the configured output, with
 * (message, output_arg) pointer-identical.  Empty message: no call.  Unknown output name: no call, failure status. */
#include "verif_harness.h"
#include "snoopy.h"
#include "configuration.h"
#include "outputregistry.h"
#include "action/log-message-dispatch.h"
extern char *snoopy_outputregistry_names[];
static snoopy_configuration_t verif_cfg;
snoopy_configuration_t *snoopy_tsrm_get_configuration(void){ return &verif_cfg; }
int snoopy_configfile_load(char *p){ (void)p; return -1; }
static int calls, called_id; static const char *c_msg, *c_arg; static int c_ret;
#define STUB(fn, id) int fn(char const * const m, char const * const a){ calls++; called_id = id; c_msg = m; c_arg = a; c_ret = nondet_int(); return c_ret; }
STUB(snoopy_output_devlogoutput, 1) STUB(snoopy_output_devnulloutput, 2) STUB(snoopy_output_devttyoutput, 3) STUB(snoopy_output_fileoutput, 4)
STUB(snoopy_output_socketoutput, 5) STUB(snoopy_output_stderroutput, 6) STUB(snoopy_output_stdoutoutput, 7) STUB(snoopy_output_syslogoutput, 8) STUB(snoopy_output_noopoutput, 9)
static int id_of(const char *n){   /* expected binding, written from the documentation (doc/OUTPUT_*.md), independent of the tables */
  if (!strcmp(n, "devlog")) return 1; if (!strcmp(n, "devnull")) return 2; if (!strcmp(n, "devtty")) return 3; if (!strcmp(n, "file")) return 4;
  if (!strcmp(n, "socket")) return 5; if (!strcmp(n, "stderr")) return 6; if (!strcmp(n, "stdout")) return 7; if (!strcmp(n, "syslog")) return 8; if (!strcmp(n, "noop")) return 9; return 0; }
void harness(void){
  verif_ghost_init();
  snoopy_configuration_setDefaults(&verif_cfg);
  int n = snoopy_outputregistry_getCount();
  int w = nondet_int(); __CPROVER_assume(w >= 0 && w <= n);
  char unknown[] = "nosuchoutput";
  verif_cfg.output = (w < n) ? snoopy_outputregistry_names[w] : unknown;
  char argbuf[4]; verif_cfg.output_arg = argbuf;
  char msg[4]; msg[0] = nondet_char(); msg[1] = nondet_char(); msg[2] = nondet_char(); msg[3] = 0;
  calls = 0; called_id = 0;
  int r = snoopy_action_log_message_dispatch(msg);
  if (msg[0] == 0) __CPROVER_assert(calls == 0 && r == SNOOPY_OUTPUT_GRACEFUL_DISCARD, "dispatch: an empty message reaches no output");
  else if (w == n) __CPROVER_assert(calls == 0 && r == -1, "dispatch: an unknown output name reaches no output and reports failure");
  else {
    __CPROVER_assert(calls == 1, "dispatch: exactly one output is called for a non-empty message");
    __CPROVER_assert(called_id == id_of(verif_cfg.output) && called_id != 0, "dispatch: the output called is the configured one");
    __CPROVER_assert(c_msg == msg && c_arg == argbuf, "dispatch: message and output argument are handed over pointer-identical");
    __CPROVER_assert(r == c_ret, "dispatch: the output's status is returned");
  }
  VERIF_CANARY();
}
