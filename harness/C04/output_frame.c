/* C02/C04/C16 — one real output enforced against the frame contract contracts/output.h with goto-instrument --dfcc: every message length,
 * every argument, every I/O call failing independently (H_FAIL) - the function writes nothing outside the effect models' ghost state. */
#include "verif_harness.h"
#include "common/trace.h"
#include "common/cfg.h"
#include "snoopy.h"
int VERIF_OUTPUT_FN(char const * const logMessage, char const * const arg);
#ifdef H_CFG
static snoopy_configuration_t verif_cfg;
snoopy_configuration_t *snoopy_tsrm_get_configuration(void){ return &verif_cfg; }
int snoopy_configfile_load(char *p){ (void)p; return -1; }
pid_t getpid(void){ return (pid_t)nondet_int(); }
#endif
void harness(void){
  verif_ghost_init();
#ifdef H_CFG
  verif_mk_cfg(&verif_cfg);
  __CPROVER_assume(verif_cfg.syslog_facility >= 0 && verif_cfg.syslog_facility <= (23 << 3) && verif_cfg.syslog_level >= 0 && verif_cfg.syslog_level <= 7);
#endif
  char *msg = verif_mk_string(1048575); size_t len = verif_str[0].len;
  char *arg = verif_mk_string(1023);
  verif_effects_init(msg, len, 1);
  int r = VERIF_OUTPUT_FN(msg, arg);
  (void)r;
  VERIF_CANARY();
}
