/* C04/C03/C16 — real socket output: socket(NONBLOCK|CLOEXEC), connect(path), exactly one send(msg, strlen(msg),
 * MSG_DONTWAIT|MSG_NOSIGNAL), close.  H_FAIL: every call may fail; then no descriptor may stay open and send is never retried. */
#include "verif_harness.h"
#include "common/trace.h"
#include "snoopy.h"
#include "output/socketoutput.h"
void harness(void){
  verif_ghost_init();
  char *msg = verif_mk_string(1048575 + 400); size_t len = verif_str[0].len;
  char *arg = verif_mk_string(1023);
#ifdef H_FAIL
  verif_effects_init(msg, len, 1);
#else
  verif_effects_init(msg, len, 0);
#endif
  int r = snoopy_output_socketoutput(msg, arg);
  __CPROVER_assert(verif_fd_open == 0, "socket output: the socket is closed again on every path");
  VERIF_ASSERT_SIGNALS_UNTOUCHED();
#ifndef H_FAIL
  if (len == 0) { __CPROVER_assert(verif_nev == 0 && r == SNOOPY_OUTPUT_GRACEFUL_DISCARD, "socket output: empty message produces nothing"); }
  else {
    int s = verif_first(EV_SEND);
    __CPROVER_assert(verif_count(EV_SOCKET) == 1 && verif_count(EV_CONNECT) == 1 && verif_count(EV_SEND) == 1 && verif_count(EV_CLOSE) == 1, "socket output: one socket, one connect, one datagram, one close");
    __CPROVER_assert(s >= 0 && verif_ev[s].ptr == msg && verif_ev[s].len == len, "socket output: the datagram is exactly the message (pointer and length)");
    __CPROVER_assert(verif_count(EV_OPEN) == 0 && verif_count(EV_WRITE) == 0 && verif_count(EV_STDIO_PUT) == 0, "socket output: nothing is emitted anywhere else");
    __CPROVER_assert(r == (int)len, "socket output: returns the datagram length");
  }
#endif
  VERIF_CANARY();
}
