/* C04/C07/C05/C16 — real snoopy_action_log_syscall_exec; callees are recording models that assert their contracts'
 * preconditions.  Filtered-out call: nothing formatted, nothing dispatched, nothing allocated.  Otherwise: the message is
 * generated exactly once into a buffer of log_message_max_length+1 bytes with the configured format, dispatched exactly
 * once (that very buffer), then freed. */
#include "verif_harness.h"
#include "common/cfg.h"
#include "snoopy.h"
#include "action/log-syscall-exec.h"
static snoopy_configuration_t verif_cfg;
snoopy_configuration_t *snoopy_tsrm_get_configuration(void){ return &verif_cfg; }
int snoopy_configfile_load(char *p){ (void)p; return -1; }
static int n_chain, n_gen, n_disp, chain_ret, order; static const char *chain_arg;
static char *g_buf; static size_t g_size, g_ds; static const char *g_fmt; static const char *d_msg; static int gen_order, disp_order, chain_order;
int snoopy_filtering_check_chain(char const * const chain){ n_chain++; chain_arg = chain; chain_order = ++order; chain_ret = nondet_bool() ? SNOOPY_FILTER_PASS : SNOOPY_FILTER_DROP; return chain_ret; }
void snoopy_message_generateFromFormat(char * const m, size_t sz, size_t ds, char const * const fmt){
  __CPROVER_assert(sz >= 1 && __CPROVER_w_ok(m, sz), "generateFromFormat precondition: the size passed does not exceed the message buffer");
  __CPROVER_assert(m[0] == 0, "generateFromFormat precondition: the message buffer starts out empty");
  n_gen++; g_buf = m; g_size = sz; g_ds = ds; g_fmt = fmt; gen_order = ++order;
  __CPROVER_havoc_slice(m, sz); m[sz - 1] = 0; }
int snoopy_action_log_message_dispatch(const char *m){ n_disp++; d_msg = m; disp_order = ++order; __CPROVER_assert(__CPROVER_r_ok(m, 1), "dispatch precondition: message readable (not yet freed)"); return nondet_int(); }
void harness(void){
  verif_ghost_init();
  verif_mk_cfg(&verif_cfg);
  __CPROVER_assume(verif_cfg.log_message_max_length >= 255 && verif_cfg.log_message_max_length <= 1048575);
  __CPROVER_assume(verif_cfg.datasource_message_max_length >= 255 && verif_cfg.datasource_message_max_length <= 1048575);
  n_chain = n_gen = n_disp = order = 0;
  snoopy_action_log_syscall_exec();
  if (verif_cfg.filtering_enabled == SNOOPY_TRUE) __CPROVER_assert(n_chain == 1 && chain_arg == verif_cfg.filter_chain && chain_order == 1, "log: the configured filter chain is consulted once, before anything else");
  if (verif_cfg.filtering_enabled == SNOOPY_TRUE && chain_ret == SNOOPY_FILTER_DROP)
    __CPROVER_assert(n_gen == 0 && n_disp == 0, "log: a dropped call formats nothing and dispatches nothing");
  else {
    __CPROVER_assert(n_gen == 1 && n_disp == 1 && gen_order < disp_order, "log: a passing call is formatted once and dispatched once, in that order");
    __CPROVER_assert(g_size == verif_cfg.log_message_max_length + 1, "log: the message buffer is log_message_max_length+1 bytes (the message never exceeds log_message_max_length)");
#ifdef H_C05_LIMITS
    __CPROVER_assert(g_ds == verif_cfg.datasource_message_max_length, "log: the per-data-source limit handed to the formatter is datasource_message_max_length");
#endif
    __CPROVER_assert(g_fmt == verif_cfg.message_format, "log: the configured message format is used");
    __CPROVER_assert(d_msg == g_buf, "log: the dispatched message is the generated one");
  }
  /* whatever the configuration record owned is still owned by it (released by the destructor, C11) */
  if (verif_cfg.message_format_malloced == SNOOPY_TRUE) free(verif_cfg.message_format);
  if (verif_cfg.filter_chain_malloced == SNOOPY_TRUE) free(verif_cfg.filter_chain);
  if (verif_cfg.output_malloced == SNOOPY_TRUE) free(verif_cfg.output);
  if (verif_cfg.output_arg_malloced == SNOOPY_TRUE) free(verif_cfg.output_arg);
  if (verif_cfg.syslog_ident_format_malloced == SNOOPY_TRUE) free(verif_cfg.syslog_ident_format);
  VERIF_CANARY();
}
