/* C04 — real snoopy_error_handler: with error logging off nothing at all is emitted; with it on, at most one
 * separate record is dispatched. */
#include "verif_harness.h"
#include "common/cfg.h"
#include "snoopy.h"
#include "error.h"
static snoopy_configuration_t verif_cfg;
snoopy_configuration_t *snoopy_tsrm_get_configuration(void){ return &verif_cfg; }
int snoopy_configfile_load(char *p){ (void)p; return -1; }
static int n_disp, depth;
/* contract model of the dispatch chain below the handler: it emits the record through the configured output - and an output that
   cannot emit it (path expansion over PATH_MAX in the file output, ...) reports THAT through snoopy_error_handler again */
int snoopy_action_log_message_dispatch(const char *m){
  n_disp++; __CPROVER_assert(__CPROVER_r_ok(m, 1), "dispatch precondition: message readable");
  __CPROVER_assert(depth == 0, "error handler: never re-entered while its own record is being emitted (otherwise a failing output recurses until the stack overflows)");
  depth++;
  if (nondet_bool()) snoopy_error_handler("Maximum destination string size exceeded");
  depth--;
  return nondet_int();
}
void harness(void){
  verif_ghost_init();
  verif_mk_cfg(&verif_cfg);
  char *e = verif_mk_string(8000);
  /* two consecutive calls in one thread, each under an arbitrary setting of error_logging: the second must behave exactly as it would
     in a fresh process (nothing may be carried from one call to the next outside the configuration record - C11) */
  for (int call = 0; call < 2; call++) {
    verif_cfg.error_logging_enabled = nondet_int();
    int enabled = (verif_cfg.error_logging_enabled == SNOOPY_TRUE);
    n_disp = 0; depth = 0;
    snoopy_error_handler(e);
    if (!enabled) __CPROVER_assert(n_disp == 0, "error handler: error logging off => no record of any kind");
    else __CPROVER_assert(n_disp == 1, "error handler: error logging on => one separate error record (whatever earlier calls did)");
    __CPROVER_assert((verif_cfg.error_logging_enabled == SNOOPY_TRUE) == enabled, "error handler: the configured error_logging setting is what it was");
  }
  VERIF_CANARY();
}
