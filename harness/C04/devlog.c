/* C04/C05 — real devlog output (+ the real socket output it delegates to): one datagram
 * "<facility|level>ident[pid]: message" to /dev/log, never truncated, for every message length and every ident. */
#include "verif_harness.h"
#include "common/trace.h"
#include "common/cfg.h"
#include "snoopy.h"
#include "output/devlogoutput.h"
static snoopy_configuration_t verif_cfg;
snoopy_configuration_t *snoopy_tsrm_get_configuration(void){ return &verif_cfg; }
int snoopy_configfile_load(char *p){ (void)p; return -1; }
pid_t getpid(void){ return (pid_t)nondet_int(); }
const char *verif_fmt_seen; int verif_prio_ok;
void harness(void){
  verif_ghost_init();
  verif_mk_cfg(&verif_cfg);
  __CPROVER_assume(verif_cfg.syslog_facility >= 0 && verif_cfg.syslog_facility <= (23 << 3) && verif_cfg.syslog_level >= 0 && verif_cfg.syslog_level <= 7);
  char *msg = verif_mk_string(1048575); size_t len = verif_str[0].len;
  char *arg = verif_mk_string(16);
  verif_effects_init(0, 0, 0);
  verif_snprintf_register = 1;
  int r = snoopy_output_devlogoutput(msg, arg);
  __CPROVER_assert(verif_fd_open == 0, "devlog output: the socket is closed again");
  VERIF_ASSERT_SIGNALS_UNTOUCHED();
  if (len == 0) { __CPROVER_assert(verif_nev == 0 && r == SNOOPY_OUTPUT_GRACEFUL_DISCARD, "devlog output: empty message produces nothing"); }
  else {
    int s = verif_first(EV_SEND);
    __CPROVER_assert(!verif_snprintf_truncated, "devlog output: the prefixed record is never truncated (buffer holds <pri>ident[pid]: message for every length)");
    __CPROVER_assert(verif_count(EV_SOCKET) == 1 && verif_count(EV_CONNECT) == 1 && verif_count(EV_SEND) == 1 && verif_count(EV_CLOSE) == 1, "devlog output: one socket, one connect, one datagram, one close");
    __CPROVER_assert(s >= 0 && verif_ev[s].len >= len + 7 && verif_ev[s].len <= len + 13 + 255 + 15, "devlog output: the datagram holds the whole message plus the <pri>ident[pid]: prefix");
    __CPROVER_assert(verif_count(EV_OPEN) == 0 && verif_count(EV_WRITE) == 0 && verif_count(EV_STDIO_PUT) == 0, "devlog output: nothing is emitted anywhere else");
  }
  verif_free_cfg(&verif_cfg); free(msg); free(arg);
  VERIF_CANARY();
}
