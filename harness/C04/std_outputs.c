/* C04 — real stdout / stderr outputs: exactly one "%s\n" record on the right stream, and nothing left in a
 * user-space buffer at return (an exec replaces the process image without flushing stdio). */
#include "verif_harness.h"
#include "common/trace.h"
#include "snoopy.h"
#include "output/stdoutoutput.h"
#include "output/stderroutput.h"
void harness(void){
  verif_ghost_init();
  char *msg = verif_mk_string(1048575); size_t len = verif_str[0].len; __CPROVER_assume(len >= 1);
  char *arg = verif_mk_string(1023);
  verif_effects_init(msg, len, 0);
  int which = nondet_bool(); int r;
  if (which) r = snoopy_output_stdoutoutput(msg, arg); else r = snoopy_output_stderroutput(msg, arg);
  int p = verif_first(EV_STDIO_PUT);
  __CPROVER_assert(verif_count(EV_STDIO_PUT) == 1 && p >= 0 && verif_ev[p].fd == (which ? 1 : 2) && verif_ev[p].len == len + 1, "std output: exactly one record of strlen(message)+1 bytes on the configured stream");
  __CPROVER_assert(verif_content_ok, "std output: the record is the message followed by a newline");
  __CPROVER_assert(verif_pending_stdout == 0, "stdout output: the record has left the user-space buffer before returning (exec does not flush stdio)");
  __CPROVER_assert(verif_count(EV_OPEN) == 0 && verif_count(EV_SOCKET) == 0 && verif_count(EV_SEND) == 0, "std output: nothing is emitted anywhere else");
  __CPROVER_assert(r == (int)(len + 1), "std output: returns the number of bytes");
  VERIF_CANARY();
}
