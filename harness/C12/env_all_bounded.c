/* C12/C02 (bounded, content level) — real snoopy_datasource_env_all against the statement "the whole environment": the variables of
 * environ, in order, joined by commas; when they do not all fit the result is a prefix of that text followed by "..."; the result is
 * NUL-terminated, the return value is its length, nothing beyond resultBufSize is written; an empty or cleared (NULL) environment gives "". */
#include "verif_harness.h"
#include "snoopy.h"
#include "datasource/env_all.h"
#ifndef NENV
#define NENV 3
#endif
#ifndef ELEN
#define ELEN 3
#endif
#define BUFMAX 16
char **environ;
static char vars[NENV][ELEN + 1]; static char *envv[NENV + 1]; static char expect[NENV * (ELEN + 1) + 4];
void harness(void){
  verif_ghost_init();
  for (int i = 0; i < NENV; i++) { for (int k = 0; k < ELEN; k++) vars[i][k] = nondet_char(); vars[i][ELEN] = 0; }
  int envc = nondet_int(); __CPROVER_assume(envc >= 0 && envc <= NENV);
  for (int i = 0; i < NENV; i++) envv[i] = i < envc ? &vars[i][0] : (char *)0; envv[NENV] = 0;
  int cleared = nondet_bool(); environ = cleared ? (char **)0 : &envv[0];
  size_t el = 0;
  if (!cleared) for (int i = 0; i < envc; i++) { if (i > 0) expect[el++] = ','; for (size_t k = 0; vars[i][k]; k++) expect[el++] = vars[i][k]; }
  expect[el] = 0;
  char buf[BUFMAX + 2]; size_t n = nondet_size_t(); __CPROVER_assume(n >= 8 && n <= BUFMAX);
  for (int k = 0; k < BUFMAX + 2; k++) buf[k] = 0x55; buf[0] = 0;
  int r = snoopy_datasource_env_all(buf, n, "");
  size_t rl = 0; while (rl < BUFMAX + 1 && buf[rl] != 0) rl++;
  __CPROVER_assert(rl < n && buf[n] == 0x55 && buf[n + 1] == 0x55 - 0, "env_all: result NUL-terminated inside the buffer, nothing written beyond resultBufSize");
  __CPROVER_assert(r == (int)rl, "env_all: returns the length of the result");
  if (el + 4 < n) {
    int same = (rl == el); for (size_t k = 0; k < sizeof(expect); k++) if (k < el && k < rl && buf[k] != expect[k]) same = 0;
    __CPROVER_assert(same, "env_all: when the whole environment fits, the result is exactly its variables joined by commas, in order");
  } else {
    __CPROVER_assert(rl >= 3 && buf[rl - 1] == '.' && buf[rl - 2] == '.' && buf[rl - 3] == '.', "env_all: a truncated result ends with ...");
    int pre = (rl - 3 <= el); for (size_t k = 0; k < sizeof(expect); k++) if (k + 3 < rl && k < el && buf[k] != expect[k]) pre = 0;
    __CPROVER_assert(pre, "env_all: a truncated result is a prefix of the joined environment followed by ...");
  }
  VERIF_CANARY();
}
