/* C12 — each identity / environment data source asks the documented system interface and reports its answer unaltered, for EVERY
 * answer: the operating-system models (world/packE_ds.c) return pairwise distinct symbolic values for distinct sources (uid != euid !=
 * gid != egid != tty owner, pid != ppid != sid != tid ...), tag every string they produce and record what they were asked; the libc
 * model records the last snprintf (format, arguments, destination).  Postconditions below are written from the property statement.
 * Loop-free, every buffer size 256..1048577. */
#include "verif_harness.h"
#include "verif_ds.h"
#include "snoopy.h"
#include "inputdatastorage.h"
#include <sys/syscall.h>
int VERIF_DS_FN(char * const resultBuf, size_t resultBufSize, char const * const arg);
#ifdef H_INPUTDATA
static snoopy_inputdatastorage_t ids;
snoopy_inputdatastorage_t *snoopy_inputdatastorage_get(void){ return &ids; }
#endif
#ifdef H_TSRM_STUB
static int verif_threads;
int snoopy_tsrm_get_threadCount(void){ return verif_threads; }
#endif
static int fmt_is(const char *want){ const char *f = verif_w.sn.fmt; if (!f) return 0; int i = 0; for (; want[i]; i++) if (f[i] != want[i]) return 0; return f[i] == 0; }
#define NUMERIC(FMT, KIND, FIELD, VALUE, WHAT) do { \
  __CPROVER_assert(verif_w.sn.calls == 1 && verif_w.sn.buf == buf && verif_w.sn.n == n && r == verif_w.sn.ret, WHAT ": one snprintf into the result buffer with its full size, its length returned"); \
  __CPROVER_assert(fmt_is(FMT) && verif_w.sn.nargs == 1 && verif_w.sn.a[0].kind == KIND && verif_w.sn.a[0].FIELD == (VALUE), WHAT ": prints exactly the value the documented system call returned (not a neighbouring identity)"); } while (0)
void harness(void){
  verif_ghost_init(); verif_w_init(); verif_snprintf_register = 1; verif_w.sn.calls = 0; verif_w.sn.fmt = 0;
  verif_w.env_val = nondet_bool() ? (char *)0 : verif_mk_string(2000000); if (verif_w.env_val) verif_tag(verif_w.env_val, T_ENVVAL);
  size_t n = nondet_size_t(); __CPROVER_assume(n >= 256 && n <= 1048577);
  char *buf = malloc(n); buf[0] = 0;
  char *arg = verif_mk_string(1023); verif_tag(arg, T_ARG);
#ifdef H_INPUTDATA
  ids.initialized = SNOOPY_TRUE; ids.filename = verif_mk_string(2000000); ids.argv = 0; ids.envp = 0; verif_tag(ids.filename, T_EXECPATH);
#endif
#ifdef H_TSRM_STUB
  verif_threads = nondet_int();
#endif
  int r = VERIF_DS_FN(buf, n, arg);
  int tag = verif_tag_of(buf);
  __CPROVER_assert(!verif_w.tag_overflow, "harness: taint table large enough");
#if defined(DS_uid)
  NUMERIC("%u", 2, i, (long long)verif_w.uid, "uid");
#elif defined(DS_euid)
  NUMERIC("%u", 2, i, (long long)verif_w.euid, "euid");
#elif defined(DS_gid)
  NUMERIC("%u", 2, i, (long long)verif_w.gid, "gid");
#elif defined(DS_egid)
  NUMERIC("%u", 2, i, (long long)verif_w.egid, "egid");
#elif defined(DS_pid)
  NUMERIC("%u", 2, i, (long long)verif_w.pid, "pid");
#elif defined(DS_ppid)
  NUMERIC("%u", 2, i, (long long)verif_w.ppid, "ppid");
#elif defined(DS_sid)
  __CPROVER_assert(verif_w.getsid_arg == 0 || verif_w.getsid_arg == verif_w.pid, "sid: asks for the session of the calling process");
  NUMERIC("%u", 2, i, (long long)verif_w.sid, "sid");
#elif defined(DS_tid)
  NUMERIC("%lu", 3, u, (unsigned long long)verif_w.ptid, "tid");
#elif defined(DS_tid_kernel)
  __CPROVER_assert(verif_w.syscall_no == SYS_gettid, "tid_kernel: asks the kernel for the thread id");
  NUMERIC("%lu", 3, u, (unsigned long long)verif_w.ktid, "tid_kernel");
#elif defined(DS_timestamp)
  if (verif_w.tod_ok) NUMERIC("%ld", 2, i, (long long)verif_w.tv_sec, "timestamp");
#elif defined(DS_timestamp_ms)
  if (verif_w.tod_ok) NUMERIC("%03d", 2, i, (long long)(verif_w.tv_usec / 1000), "timestamp_ms");
#elif defined(DS_timestamp_us)
  if (verif_w.tod_ok) NUMERIC("%06d", 2, i, (long long)verif_w.tv_usec, "timestamp_us");
#elif defined(DS_snoopy_threads)
  NUMERIC("%d", 2, i, (long long)verif_threads, "snoopy_threads");
#elif defined(DS_username) || defined(DS_eusername) || defined(DS_tty_username)
  __CPROVER_assert(tag == T_PWNAME || tag == T_LITERAL || tag == T_FORMATTED || tag == T_NONE, "user name: the result is the passwd name or a placeholder, never another source's text");
# if defined(DS_tty_username)
  if (verif_w.pw_asked) __CPROVER_assert(verif_w.tty_fd_asked == 0 && verif_w.stat_tag == T_TTY && verif_w.stat_ok && verif_w.pw_uid == verif_w.tty_uid, "tty_username: looks up the owner (stat st_uid) of the terminal on standard input");
# elif defined(DS_username)
  __CPROVER_assert(verif_w.pw_asked == 1 && verif_w.pw_uid == verif_w.uid, "username: looks up the REAL uid");
# else
  __CPROVER_assert(verif_w.pw_asked == 1 && verif_w.pw_uid == verif_w.euid, "eusername: looks up the EFFECTIVE uid");
# endif
  if (verif_w.pw_found) __CPROVER_assert(tag == T_PWNAME && r >= 0, "user name: when the passwd entry exists its name is what is reported");
#elif defined(DS_group) || defined(DS_egroup)
  __CPROVER_assert(tag == T_GRNAME || tag == T_LITERAL || tag == T_NONE, "group name: the result is the group name or a placeholder, never another source's text");
# if defined(DS_group)
  __CPROVER_assert(verif_w.gr_asked == 1 && verif_w.gr_gid == verif_w.gid, "group: looks up the REAL gid");
# else
  __CPROVER_assert(verif_w.gr_asked == 1 && verif_w.gr_gid == verif_w.egid, "egroup: looks up the EFFECTIVE gid");
# endif
  if (verif_w.gr_found) __CPROVER_assert(tag == T_GRNAME && r >= 0, "group name: when the group entry exists its name is what is reported");
#elif defined(DS_cwd)
  if (verif_w.cwd_ok) __CPROVER_assert(tag == T_CWD && r >= 0, "cwd: reports what getcwd() answered"); else __CPROVER_assert(r == SNOOPY_DATASOURCE_FAILURE || tag != T_CWD, "cwd: a failing getcwd() is reported as failure/placeholder");
#elif defined(DS_hostname)
  if (verif_w.host_ok) __CPROVER_assert(tag == T_HOSTNAME && r >= 0, "hostname: reports what gethostname() answered");
#elif defined(DS_tty)
  __CPROVER_assert(verif_w.tty_fd_asked == 0, "tty: asks for the terminal on standard input");
  if (verif_w.tty_ok) __CPROVER_assert(tag == T_TTY && r >= 0, "tty: reports the terminal path ttyname_r() answered"); else __CPROVER_assert(tag == T_LITERAL, "tty: no terminal / error gives a placeholder");
#elif defined(DS_tty_uid)
  __CPROVER_assert(verif_w.tty_fd_asked == 0, "tty_uid: asks for the terminal on standard input");
  if (verif_w.tty_ok && verif_w.stat_ok) { __CPROVER_assert(verif_w.stat_tag == T_TTY, "tty_uid: stats the terminal path"); NUMERIC("%u", 2, i, (long long)verif_w.tty_uid, "tty_uid"); }
#elif defined(DS_login)
  __CPROVER_assert(verif_w.login_asked == 1, "login: asks getlogin_r first");
  if (verif_w.login_ok) __CPROVER_assert(tag == T_LOGIN && r >= 0, "login: reports the login name of the session");
  else __CPROVER_assert(tag == T_ENVVAL || tag == T_LITERAL || tag == T_NONE, "login: falls back to SUDO_USER / LOGNAME from the environment, else a placeholder");
  if (!verif_w.login_ok && verif_w.env_found) __CPROVER_assert(tag == T_ENVVAL, "login: a set SUDO_USER/LOGNAME is used when getlogin_r fails");
#elif defined(DS_env)
  __CPROVER_assert(verif_w.env_asked == arg, "env: looks up exactly the variable named by its argument");
  if (verif_w.env_found) __CPROVER_assert(tag == T_ENVVAL && r >= 0, "env: a set variable's value is reported"); else __CPROVER_assert(tag == T_LITERAL, "env: an unset variable gives the (undefined) placeholder");
#elif defined(DS_datetime)
  if (verif_w.time_ok && verif_w.localtime_ok) {
    __CPROVER_assert(verif_w.localtime_in_ok && verif_w.strftime_tm == verif_w.localtime_out, "datetime: formats the broken-down CURRENT time");
    __CPROVER_assert(arg[0] ? verif_w.strftime_fmt == arg : (verif_w.strftime_fmt != 0 && verif_w.strftime_fmt != arg), "datetime: uses the requested format, the default one only for an empty argument");
    if (verif_w.strftime_ok) __CPROVER_assert(tag == T_STRFTIME && r >= 0, "datetime: reports what strftime() produced");
  }
#elif defined(DS_filename)
  __CPROVER_assert(tag == T_EXECPATH && r >= 0, "filename: reports the path of the current call");
#elif defined(DS_snoopy_literal)
  __CPROVER_assert(tag == T_ARG && r >= 0, "snoopy_literal: reports its argument");
#else
#error "no postcondition written for this data source"
#endif
  VERIF_CANARY();
}
