/* C07 (bounded, content level) — real snoopy_filtering_check_chain against a reference written from the property
 * statement: the decision is PASS iff every element of the chain whose name this build knows returns pass; unknown
 * names and empty elements are ignored; an empty chain passes.  The registry is behind its contract: names 'a' and 'b'
 * are known (one byte each, so chains of <= CHAIN_MAX bytes hold several elements), every other name is unknown; a known
 * filter's verdict is a fixed but arbitrary function of (name, first byte of argument, argument empty?). */
#include "verif_harness.h"
#include "snoopy.h"
#include "filtering.h"
#ifndef CHAIN_MAX
#define CHAIN_MAX 9
#endif
static _Bool verdict[2][2][2];           /* [name a/b][arg empty?][low bit of first arg byte] -> pass? */
static int consulted, consulted_after_drop, dropped, consulted_unknown, arg_wrong;
static const char *g_chain; static size_t seg_start[CHAIN_MAX + 1], seg_len[CHAIN_MAX + 1]; static int nseg;   /* argument text of the j-th known element (reference parser) */
static int known(const char *n){ return (n[0] == 'a' || n[0] == 'b') && n[1] == 0; }
int snoopy_filterregistry_doesNameExist(char const * const n){ return known(n) ? SNOOPY_TRUE : SNOOPY_FALSE; }
int snoopy_filterregistry_callByName(char const * const n, char const * const a){
  if (!known(n)) { consulted_unknown++; return -1; }
  /* the argument is the element's own text after its first ':' - all of it (not cut to some smaller buffer), nothing else */
  if (consulted < nseg) { size_t l = 0; while (a[l] != 0 && l <= CHAIN_MAX) l++;
    if (l != seg_len[consulted]) arg_wrong = 1; else for (size_t i = 0; i < CHAIN_MAX; i++) if (i < l && a[i] != g_chain[seg_start[consulted] + i]) arg_wrong = 1; }
  else arg_wrong = 1;
  consulted++; if (dropped) consulted_after_drop++;
  _Bool p = verdict[n[0] == 'b'][a[0] == 0][a[0] & 1];
  if (!p) dropped = 1;
  return p ? SNOOPY_FILTER_PASS : SNOOPY_FILTER_DROP; }
/* reference: left-to-right scan of the chain text itself */
static int spec(const char *c){
  int pass = 1; size_t i = 0;
  while (c[i] != 0) {
    while (c[i] == ';') i++;                          /* empty elements */
    if (c[i] == 0) break;
    size_t s = i; while (c[i] != 0 && c[i] != ';') i++;        /* element [s, i) */
    size_t colon = s; while (colon < i && c[colon] != ':') colon++;
    if (colon - s == 1 && (c[s] == 'a' || c[s] == 'b')) {       /* known name */
      char a0 = (colon < i && colon + 1 < i) ? c[colon + 1] : 0;
      seg_start[nseg] = colon < i ? colon + 1 : i; seg_len[nseg] = colon < i ? i - colon - 1 : 0; nseg++;
      if (!verdict[c[s] == 'b'][a0 == 0][a0 & 1]) pass = 0;
    }
  }
  return pass ? SNOOPY_FILTER_PASS : SNOOPY_FILTER_DROP; }
void harness(void){
  verif_ghost_init();
  char chain[CHAIN_MAX + 1];
  for (int i = 0; i < CHAIN_MAX; i++) chain[i] = nondet_char();
  chain[CHAIN_MAX] = 0;
  for (int a = 0; a < 2; a++) for (int b = 0; b < 2; b++) for (int c = 0; c < 2; c++) verdict[a][b][c] = nondet_bool();
  consulted = consulted_after_drop = dropped = consulted_unknown = arg_wrong = 0; nseg = 0; g_chain = chain;
  int expected = spec(chain);                       /* also fills the expected argument segments */
  int r = snoopy_filtering_check_chain(chain);
  __CPROVER_assert(!arg_wrong, "filter chain: each consulted filter gets its element's own argument text, whole");
  __CPROVER_assert(r == expected, "filter chain: the decision is the conjunction over the known elements of the chain (reference parser)");
  __CPROVER_assert(consulted_unknown == 0, "filter chain: unknown names are never called");
  __CPROVER_assert(consulted_after_drop == 0, "filter chain: nothing is consulted after a drop");
  VERIF_CANARY();
}
