/* C07 (unbounded, token level) — real snoopy_filtering_check_chain under its contract, with a loop contract on the token loop
 * (loops/filtering.json).  strtok_r / strstr are size-level models: ANY tokenisation of the copied chain is possible, so the
 * result holds for every chain (any length up to the 1023 bytes the INI line cap allows, any number of elements).
 * The registry is a model with a ghost log: a name is known or not (arbitrary), a known filter passes or drops (arbitrary).
 * Proved: DROP <=> some consulted filter dropped; only names the registry knows are consulted (unknown ones are skipped and the
 * loop goes on); nothing is consulted after a drop; the argument handed over is the text after the first ':' (or ""). */
#include "verif_harness.h"
#include "filtering.h"
#include "snoopy.h"
struct verif_c07_s verif_c07;
const char *verif_last_colon;        /* ghost: result of the last strstr(spec, ":") */
int snoopy_filterregistry_doesNameExist(char const * const n){
  __CPROVER_assert(__CPROVER_r_ok(n, 1), "registry precondition: name readable");
  verif_c07.last_exist = nondet_bool() ? SNOOPY_TRUE : SNOOPY_FALSE; verif_c07.last_name = n; return verif_c07.last_exist; }
int snoopy_filterregistry_callByName(char const * const n, char const * const a){
  __CPROVER_assert(__CPROVER_r_ok(n, 1) && __CPROVER_r_ok(a, 1), "registry precondition: name and argument readable");
  if (!(verif_c07.last_exist == SNOOPY_TRUE && verif_c07.last_name == n)) verif_c07.consulted_unknown++;
  if (verif_c07.dropped) verif_c07.consulted_after_drop++;
  if (verif_last_colon ? (a != verif_last_colon + 1) : (a[0] != 0)) verif_c07.arg_mismatch++;
  verif_c07.consulted++;
  if (nondet_bool()) return SNOOPY_FILTER_PASS;
  verif_c07.dropped = 1; return SNOOPY_FILTER_DROP; }
/* strstr(spec, ":") as used by the function: remember where the colon was found */
char *strstr(const char *h, const char *n){
  size_t hl = strlen(h); (void)strlen(n);
  if (hl == 0 || nondet_bool()) { verif_last_colon = 0; return 0; }
  size_t k = nondet_size_t(); __CPROVER_assume(k < hl && k <= 1022);     /* name part fits: chains are <= 1023 bytes (INI line cap) */
  verif_last_colon = h + k; return (char *)h + k; }
void harness(void){
  verif_ghost_init();
  verif_c07.consulted = 0; verif_c07.dropped = 0; verif_c07.consulted_after_drop = 0; verif_c07.consulted_unknown = 0; verif_c07.last_exist = 0; verif_c07.last_name = 0; verif_c07.arg_mismatch = 0;
  char *chain = verif_mk_string(1023);
  int r = snoopy_filtering_check_chain(chain);
  __CPROVER_assert((r == SNOOPY_FILTER_DROP) == (verif_c07.dropped != 0), "filter chain: drop exactly when a consulted filter dropped");
  VERIF_CANARY();
}
