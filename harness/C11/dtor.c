/* C11/C16 — snoopy_configuration_dtor on an arbitrary RI state (= after any history).
 * Thread-safe build: the record is per call (allocated by tsrm ctor, freed by tsrm dtor, C09), so what
 * the destructor owes is: every owned string freed exactly once, nothing else freed.
 * Non-thread-safe build (-DH_NOTHREADS, generated config.h): the record is the process-wide global, so
 * after the destructor EVERY option must equal its compiled-in default (else the next call under a
 * vanished/changed file sees values of an earlier one). Defaults are taken from the real
 * snoopy_configuration_setDefaults on a reference record. */
#include "common/cfg.h"
#ifdef H_NOTHREADS
extern snoopy_configuration_t snoopy_configuration_data;
#define CFGP (&snoopy_configuration_data)
#else
static snoopy_configuration_t verif_cfg;
#define CFGP (&verif_cfg)
snoopy_configuration_t *snoopy_tsrm_get_configuration(void){ return &verif_cfg; }   /* contract of tsrm (C09): my own record */
#endif
int snoopy_configfile_load(char *p){ (void)p; __CPROVER_assert(0, "dtor must not load a configuration file"); return 0; }
void harness(void){
  verif_ghost_init();
  snoopy_configuration_t ref;
  snoopy_configuration_setDefaults(&ref);
  verif_mk_cfg(CFGP);
  snoopy_configuration_dtor();
  snoopy_configuration_t *c = CFGP;
  __CPROVER_assert(c->message_format_malloced == SNOOPY_FALSE && c->filter_chain_malloced == SNOOPY_FALSE && c->output_malloced == SNOOPY_FALSE
     && c->output_arg_malloced == SNOOPY_FALSE && c->syslog_ident_format_malloced == SNOOPY_FALSE, "dtor: no string option is owned any more");
#ifdef H_NOTHREADS
  __CPROVER_assert(c->message_format == ref.message_format, "dtor: message_format back to the compiled-in default");
  __CPROVER_assert(c->filter_chain == ref.filter_chain && c->filtering_enabled == ref.filtering_enabled, "dtor: filter_chain back to the compiled-in default");
  __CPROVER_assert(c->output == ref.output && c->output_arg == ref.output_arg, "dtor: output and its argument back to the compiled-in default");
  __CPROVER_assert(c->syslog_ident_format == ref.syslog_ident_format, "dtor: syslog_ident back to the compiled-in default");
  __CPROVER_assert(c->syslog_facility == ref.syslog_facility && c->syslog_level == ref.syslog_level, "dtor: syslog facility/level back to the compiled-in default");
  __CPROVER_assert(c->error_logging_enabled == ref.error_logging_enabled, "dtor: error_logging back to the compiled-in default");
  __CPROVER_assert(c->datasource_message_max_length == ref.datasource_message_max_length && c->log_message_max_length == ref.log_message_max_length, "dtor: both length limits back to the compiled-in default");
  __CPROVER_assert(c->configfile_path == ref.configfile_path, "dtor: configfile_path back to the compiled-in default");
#endif
  VERIF_CANARY();
}
