/* C08/C11 — one option-value parser enforced against its frame contract (contracts/configfile.h) with goto-instrument --dfcc: arbitrary
 * record satisfying the representation invariant, arbitrary value text of 0..1023 bytes. */
#include "common/cfg.h"
#include "configfile.h"
static snoopy_configuration_t verif_cfg;
snoopy_configuration_t *snoopy_tsrm_get_configuration(void){ return &verif_cfg; }
#include "lib/inih/src/ini.h"
int ini_parse(const char *f, ini_handler h, void *u){ (void)f; (void)h; (void)u; return -1; }
void harness(void){
  verif_ghost_init();
  verif_mk_cfg(&verif_cfg);
  const char *v = verif_mk_string(1023);
  int r = VERIF_PV_FN(v, &verif_cfg);
  (void)r;
  VERIF_CANARY();
}
