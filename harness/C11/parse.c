/* C11/C16/C02 — every snoopy_configfile_parseValue_* on an arbitrary RI state with an arbitrary value
 * (size level, value length 0..1023 = INI line cap): memory-safe, preserves RI, and together with the
 * destructor leaves nothing allocated — also when the same key occurs twice (two parse calls). */
#include "common/cfg.h"
#include "configfile.h"
static snoopy_configuration_t verif_cfg;
snoopy_configuration_t *snoopy_tsrm_get_configuration(void){ return &verif_cfg; }
#include "lib/inih/src/ini.h"
int ini_parse(const char *f, ini_handler h, void *u){ (void)f; (void)h; (void)u; return -1; }
static void one(int which, const char *v){
  switch (which) {
    case 0: snoopy_configfile_parseValue_error_logging(v, &verif_cfg); break;
    case 1: snoopy_configfile_parseValue_filter_chain(v, &verif_cfg); break;
    case 2: snoopy_configfile_parseValue_message_format(v, &verif_cfg); break;
    case 3: snoopy_configfile_parseValue_output(v, &verif_cfg); break;
    case 4: snoopy_configfile_parseValue_syslog_facility(v, &verif_cfg); break;
    case 5: snoopy_configfile_parseValue_syslog_ident(v, &verif_cfg); break;
    case 6: snoopy_configfile_parseValue_syslog_level(v, &verif_cfg); break;
    case 7: snoopy_configfile_parseValue_datasource_message_max_length(v, &verif_cfg); break;
    default: snoopy_configfile_parseValue_log_message_max_length(v, &verif_cfg); break;
  }
}
void harness(void){
  verif_ghost_init();
  verif_mk_cfg(&verif_cfg);
  const char *v1 = verif_mk_string(1023);
  const char *v2 = verif_mk_string(1023);
  one(H_WHICH, v1);
  if (nondet_bool()) one(H_WHICH, v2);       /* the same key on a second line (duplicate keys, continuation lines) */
  snoopy_configuration_t *c = &verif_cfg;
  __CPROVER_assert((c->message_format_malloced == SNOOPY_TRUE || c->message_format_malloced == SNOOPY_FALSE) && c->message_format != 0, "RI: message_format");
  __CPROVER_assert(c->output != 0 && c->output_arg != 0 && c->filter_chain != 0 && c->syslog_ident_format != 0, "RI: string options are never NULL");
  snoopy_configuration_dtor();
  free((void *)v1); free((void *)v2);
  VERIF_CANARY();
}
