/* C02/C03/C16 — real snoopy_util_file_getSmallTextFileContent enforced against contracts/util_file.h (goto-instrument --dfcc); the read
 * loop is bounded by the function's own constants (10 KiB in 1 KiB steps: at most 10 iterations, unwound completely). */
#include "verif_harness.h"
#include "verif_ds.h"
#include "snoopy.h"
#include "util/file-snoopy.h"
size_t verif_arg_size;
/* the block handed back is a live heap block of one of the two sizes the function allocates, holding a terminated string */
_Bool verif_file_result_ok(char **contentPtrAddr, int ret){
  char *p = *contentPtrAddr;
  if (p == 0 || __CPROVER_POINTER_OFFSET(p) != 0 || !__CPROVER_DYNAMIC_OBJECT(p)) return 0;
  size_t sz = __CPROVER_OBJECT_SIZE(p);
  if (!__CPROVER_r_ok(p, sz)) return 0;
  if (ret >= 0) return sz == SNOOPY_UTIL_FILE__SMALL_FILE_MAX_SIZE && (size_t)ret < sz && (p[ret] == 0 || p[sz - 1] == 0);
  return sz >= 1 && p[sz - 1] == 0;
}
void harness(void){
  verif_ghost_init(); verif_w_init(); verif_snprintf_register = 1;
  verif_arg_size = nondet_size_t();
#ifdef H_PLAIN
  /* the same contract stated by the harness (DFCC instrumentation of the 10 KiB read loop exhausts cbmc's memory) */
  const char *path = verif_mk_string(4096); char *content = 0;
  int r = snoopy_util_file_getSmallTextFileContent(path, &content);
  __CPROVER_assert(r >= -1 && r < 10240, "getSmallTextFileContent: returns the text length (< 10240) or -1");
  __CPROVER_assert(verif_file_result_ok(&content, r), "getSmallTextFileContent: hands back a live heap block of its own size holding a NUL-terminated string");
  __CPROVER_assert(verif_w.fd_open == 0 && verif_w.never == 0, "getSmallTextFileContent: no stream left open, no process-ending call");
  free(content);                                   /* with --memory-leak-check: nothing else stays allocated */
#else
  const char *path; char **out;
  int r = snoopy_util_file_getSmallTextFileContent(path, out);
  (void)r;
#endif
  VERIF_CANARY();
}
