/* C02 — one simple filter under its contract (contracts/filter.h), enforced by goto-instrument --dfcc: every argument string, every
 * answer or failure of the operating-system models: memory-safe, writes nothing of the caller's, PASS or DROP, nothing left open. */
#include "verif_harness.h"
#include "verif_ds.h"
#include "snoopy.h"
size_t verif_arg_size;
int VERIF_FILTER_FN(char const * const arg);
void harness(void){
  verif_ghost_init(); verif_w_init(); verif_snprintf_register = 1;
  verif_arg_size = nondet_size_t();
  const char *arg;
  int r = VERIF_FILTER_FN(arg);
  (void)r;
  VERIF_CANARY();
}
