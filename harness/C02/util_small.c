/* C02/C12/C16 — small utilities enforced against contracts/util_small.h with goto-instrument --dfcc */
#include "verif_harness.h"
#include "verif_ds.h"
#include "snoopy.h"
#include <limits.h>
#include <utmp.h>
char * snoopy_util_pwd_convertUidToUsername (uid_t uid);
int snoopy_datasource_tty__get_tty_uid (uid_t * ttyUid, char * const resultBuf, size_t resultBufSize);
int snoopy_util_utmp_getUtmpIpAddrAsString (struct utmp const * const utmpEntry, char * const resultBuf, size_t resultBufSize);
_Bool verif_username_ok(char *r){
  if (r == 0) return 1;
  if (__CPROVER_POINTER_OFFSET(r) != 0 || !__CPROVER_DYNAMIC_OBJECT(r) || __CPROVER_OBJECT_SIZE(r) != LOGIN_NAME_MAX + 1 || !__CPROVER_r_ok(r, LOGIN_NAME_MAX + 1)) return 0;
  return r[LOGIN_NAME_MAX] == 0;
}
void harness(void){
  verif_ghost_init(); verif_w_init(); verif_snprintf_register = 1;
#if defined(H_PWD)
  uid_t u = nondet_uint(); char *r = snoopy_util_pwd_convertUidToUsername(u); free(r);      /* with --memory-leak-check: nothing else stays allocated */
#elif defined(H_TTYUID)
  uid_t *pu; char *buf; size_t n; int r = snoopy_datasource_tty__get_tty_uid(pu, buf, n); (void)r;
#else
  struct utmp *e; char *buf; size_t n; int r = snoopy_util_utmp_getUtmpIpAddrAsString(e, buf, n); (void)r;
#endif
  VERIF_CANARY();
}
