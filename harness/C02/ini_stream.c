/* C02/C08 (bounded, content level) — real ini_parse_stream (lib/inih/src/ini.c, compiled with the project's -D flags except the line cap,
 * which is scaled 1024 -> INI_MAX_LINE given on the command line) fed by a reader model that delivers up to NLINES lines of up to LLEN
 * arbitrary bytes (longer than the line cap included): memory safety of the line buffer handling (BOM skip, lskip/rstrip, inline
 * comments, section and name copies, multi-line continuation), and the contract towards the handler: section, name and value are
 * NUL-terminated strings inside the parser's own buffers. */
#include "verif_harness.h"
#include "ini.h"
#ifndef NLINES
#define NLINES 2
#endif
#ifndef LLEN
#define LLEN 9
#endif
static char text[NLINES][LLEN + 1]; static int nlines, nextline; static size_t off;
/* fgets-like: at most num-1 bytes of the current line (which may be longer than the cap: the rest is delivered by the next call), stops after '\n' */
static char *reader(char *str, int num, void *stream){ (void)stream;
  __CPROVER_assert(num > 0 && __CPROVER_w_ok(str, (size_t)num), "ini reader: the parser hands its line buffer with its true size");
  if (nextline >= nlines) return 0;
  int k = 0; while (k + 1 < num && text[nextline][off] != 0) { char c = text[nextline][off++]; str[k++] = c; if (c == '\n') break; }
  str[k] = 0;
  if (text[nextline][off] == 0 || (k > 0 && str[k - 1] == '\n')) { if (text[nextline][off] == 0) { nextline++; off = 0; } }
  return str; }
static int ncalls;
static int terminated(const char *s){ for (int i = 0; i < 64; i++) { if (!__CPROVER_r_ok(s + i, 1)) return 0; if (s[i] == 0) return 1; } return 0; }
static int handler(void *user, const char *section, const char *name, const char *value){ (void)user; ncalls++;
  __CPROVER_assert(terminated(section) && terminated(name) && terminated(value), "ini handler contract: section, name and value are NUL-terminated strings inside the parser's buffers");
  return nondet_bool(); }
void harness(void){
  verif_ghost_init();
  nlines = nondet_int(); __CPROVER_assume(nlines >= 0 && nlines <= NLINES); nextline = 0; off = 0; ncalls = 0;
  for (int l = 0; l < NLINES; l++) { for (int i = 0; i < LLEN; i++) text[l][i] = nondet_char(); text[l][LLEN] = 0; __CPROVER_assume(text[l][0] != 0); }
  int r = ini_parse_stream(reader, 0, handler, 0);
  __CPROVER_assert(r >= 0, "ini_parse_stream: returns 0 or the number of the first offending line");
  VERIF_CANARY();
}
