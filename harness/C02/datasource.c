/* C02 — one data source under its contract (contracts/datasource.h), enforced by goto-instrument --dfcc:
 * for EVERY result-buffer size 256..1048577, every argument string and every answer (or failure) of the operating system
 * models, the real function writes nothing but its result buffer (frame), stays inside it, leaves it NUL-terminated,
 * closes what it opened and never calls a process-ending or environment-changing function. */
#include "verif_harness.h"
#include "verif_ds.h"
#include "snoopy.h"
#include "inputdatastorage.h"
size_t verif_arg_size;
int VERIF_DS_FN(char * const resultBuf, size_t resultBufSize, char const * const arg);
/* witness for "the result is NUL-terminated inside the buffer": the last terminator a libc model stored in this object,
   or the first or last byte (stored directly by the code) */
_Bool verif_result_terminated(const char *buf, size_t n, int ret){
  if (buf[0] == 0 || buf[n - 1] == 0) return 1;
  if (ret >= 0 && (size_t)ret < n && buf[ret] == 0) return 1;       /* the documented return value is the length of the result */
  for (int i = 0; i < VERIF_NSTR; i++)
    if (i < verif_nstr && verif_str[i].obj && __CPROVER_same_object(verif_str[i].obj, buf)) {
      size_t at = (size_t)__CPROVER_POINTER_OFFSET(verif_str[i].obj) + verif_str[i].len;
      if (at < n && buf[at] == 0) return 1;
    }
  return 0;
}
/* argument / environment vectors of ANY length up to VERIF_MAXVEC: every entry aliases one string of symbolic length (the loop
   contracts are proved for an arbitrary loop state and an arbitrary entry, so the alias does not restrict the inductive step) */
#ifndef VERIF_MAXVEC
#define VERIF_MAXVEC 4096
#endif
int verif_argc, verif_envc;
static char *verif_vec[VERIF_MAXVEC + 1];
static char **mk_vector(int *count, int tag){
  int c = nondet_int(); __CPROVER_assume(c >= 0 && c <= VERIF_MAXVEC); *count = c;
#ifdef H_VEC_ALIAS
  char *p = verif_mk_string(2000000); verif_tag(p, tag);
  __CPROVER_array_set(verif_vec, p);
#else
  for (int i = 0; i < VERIF_MAXVEC; i++) if (i < c) { verif_vec[i] = verif_mk_string(2000000); verif_tag(verif_vec[i], tag); }   /* distinct strings, each of any length */
#endif
  verif_vec[c] = 0;
  return verif_vec;
}
#ifdef H_TSRM_STUB
int snoopy_tsrm_get_threadCount(void){ return nondet_int(); }      /* tsrm.c is under its own contracts (C09) */
#endif
#ifdef H_INPUTDATA
static snoopy_inputdatastorage_t ids;
snoopy_inputdatastorage_t *snoopy_inputdatastorage_get(void){ return &ids; }
#endif
void harness(void){
  verif_ghost_init(); verif_w_init(); verif_snprintf_register = 1;
  verif_arg_size = nondet_size_t();
#ifdef H_LINES
  __CPROVER_assume(verif_w.lines_left <= H_LINES);
#endif
  verif_w.env_val = nondet_bool() ? (char *)0 : verif_mk_string(2000000); if (verif_w.env_val) verif_tag(verif_w.env_val, T_ENVVAL);
#ifdef H_INPUTDATA
  ids.initialized = SNOOPY_TRUE; ids.filename = verif_mk_string(2000000); ids.argv = 0;
#ifdef H_ARGV
  if (nondet_bool()) ids.filename = 0;        /* cmdline documents a fallback for a missing path; a NULL path for the filename data source is an invalid pointer (outside the domain) */
#endif ids.envp = 0;
  if (ids.filename) verif_tag(ids.filename, T_EXECPATH);
#ifdef H_ARGV
  if (nondet_bool()) ids.argv = mk_vector(&verif_argc, T_ARGV);      /* else: missing vector */
#endif
#endif
#ifdef H_ENVIRON
  environ = nondet_bool() ? (char **)0 : mk_vector(&verif_envc, T_ENVIRON);      /* cleared environment: environ == NULL */
#endif
#ifdef H_PLAIN
  /* no DFCC instrumentation (it exhausts cbmc's memory on the functions that write at symbolic offsets): the same contract is
     stated by the harness itself; the frame is then only "no write outside the objects handed in" (cbmc's object-bounds checks) */
  size_t n = nondet_size_t(); __CPROVER_assume(n >= 256 && n <= 1048577);
  char *buf = malloc(n); buf[0] = 0;
  const char *arg = verif_mk_string(4096);
  int r = VERIF_DS_FN(buf, n, arg);
  __CPROVER_assert(r >= -1, "data source: returns a length or SNOOPY_DATASOURCE_FAILURE");
  __CPROVER_assert(verif_result_terminated(buf, n, r), "data source: the result is NUL-terminated inside the buffer");
  __CPROVER_assert(verif_w.fd_open == 0 && verif_w.never == 0, "data source: nothing left open, no process-ending call");
#else
  char *buf; size_t n; const char *arg;
  int r = VERIF_DS_FN(buf, n, arg);
  (void)r;
#endif
  VERIF_CANARY();
}
