/* C02/C16 (bounded, content level) — real snoopy_util_systemd_convertCgroupEntryToUnitName / ...UserSliceInfoToUsername (src/util/systemd.c)
 * on cgroup entries "N:name=systemd:/" + tail, the tail being one of the slice prefixes ("", "system.slice/", "user.slice/user-", "init.scope")
 * followed by up to TAIL arbitrary bytes (so unit names that end in the middle of anything - an escape, a suffix, a number - occur, which
 * is what a result buffer cutting the cgroup line produces): memory-safe, returns NULL or a terminated heap string the caller frees,
 * nothing else stays allocated, the entry text is only modified inside its own buffer. */
#include "verif_harness.h"
#include "snoopy.h"
#include "util/systemd-snoopy.h"
#include <sys/types.h>
#ifndef TAIL
#define TAIL 6
#endif
char *snoopy_util_pwd_convertUidToUsername(uid_t uid){ (void)uid; if (nondet_bool()) return 0; char *p = malloc(3); p[0] = 'u'; p[1] = nondet_char(); p[2] = 0; return p; }   /* own contract run: C02.util.pwd */
static const char *PFX[] = { "", "system.slice/", "user.slice/user-", "init.scope", "user.slice/" };
void harness(void){
  verif_ghost_init();
  char entry[64]; size_t o = 0;
  const char *head = nondet_bool() ? "1:name=systemd:/" : "0::/";
  for (size_t k = 0; head[k]; k++) entry[o++] = head[k];
  int which = nondet_int(); __CPROVER_assume(which >= 0 && which < 5);
  const char *p = PFX[which]; for (size_t k = 0; p[k]; k++) entry[o++] = p[k];
  for (int k = 0; k < TAIL; k++) entry[o++] = nondet_char();
  entry[o] = 0;
  char *r = snoopy_util_systemd_convertCgroupEntryToUnitName(entry);
  if (r) { size_t l = 0; while (l < 64 && r[l] != 0) l++; __CPROVER_assert(l < 64, "systemd unit name: the result is a NUL-terminated string"); free(r); }
  VERIF_CANARY();
}
