/* C02 (size level; bounded in the NUMBER of variables only) — real snoopy_datasource_env_all: variables of any length, every
 * resultBufSize 256..1048577, environ == NULL (cleared environment) included: the running offset never passes the buffer, every
 * snprintf gets a size that fits, the result is terminated at the returned length. */
#include "verif_harness.h"
#include "snoopy.h"
#include "datasource/env_all.h"
#ifndef NENV
#define NENV 4
#endif
char **environ;
void harness(void){
  verif_ghost_init();
  char *envv[NENV + 1];
  int envc = nondet_int(); __CPROVER_assume(envc >= 0 && envc <= NENV);
  for (int i = 0; i < NENV; i++) envv[i] = i < envc ? verif_mk_string(2000000) : (char *)0;
  envv[NENV] = 0;
  environ = nondet_bool() ? (char **)0 : &envv[0];
#ifdef H_BUFSIZE
  size_t n = H_BUFSIZE;          /* concrete buffer size (bounded variant: the symbolic-size run exhausts the SAT back end) */
#else
  size_t n = nondet_size_t(); __CPROVER_assume(n >= 256 && n <= 1048577);
#endif
  char *buf = malloc(n); buf[0] = 0;
  int r = snoopy_datasource_env_all(buf, n, "");
  __CPROVER_assert(r >= 0 && (size_t)r < n, "env_all: returns the length of the result, inside the buffer");
  __CPROVER_assert(buf[r] == 0, "env_all: the result is NUL-terminated at the returned length");
  VERIF_CANARY();
}
