/* C13 — contract of the generic lookup every registry uses (real src/genericregistry.c): for ANY table of names (here 3 names of <= 3
 * bytes over the full alphabet + the "" sentinel) and ANY key (<= 4 bytes): the id returned is the first index whose name EQUALS the key
 * (whole string, not a prefix, not case-folded), and -1 when no name equals it; doesNameExist agrees. Content level, bounded. */
#include "verif_harness.h"
#include "snoopy.h"
#include "genericregistry.h"
#define NN 3
#define NL 3
#define KL 4
static int eq(const char *a, const char *b){ int i = 0; while (a[i] != 0 && a[i] == b[i]) i++; return a[i] == b[i]; }
void harness(void){
  verif_ghost_init();
  char n0[NL + 1], n1[NL + 1], n2[NL + 1], sent[1], key[KL + 1];
  for (int i = 0; i < NL; i++) { n0[i] = nondet_char(); n1[i] = nondet_char(); n2[i] = nondet_char(); }
  n0[NL] = n1[NL] = n2[NL] = 0; sent[0] = 0;
  __CPROVER_assume(n0[0] != 0 && n1[0] != 0 && n2[0] != 0);           /* registered names are not empty (the empty string is the sentinel) */
  for (int i = 0; i < KL; i++) key[i] = nondet_char(); key[KL] = 0;
  char *tab[NN + 1]; tab[0] = n0; tab[1] = n1; tab[2] = n2; tab[3] = sent;
  int want = eq(n0, key) ? 0 : eq(n1, key) ? 1 : eq(n2, key) ? 2 : -1;
  int id = snoopy_genericregistry_getIdFromName(tab, key);
  __CPROVER_assert(id == want, "registry lookup: a name resolves to the first entry that EQUALS it, anything else (prefixes, extensions, other case) is unknown");
  __CPROVER_assert((snoopy_genericregistry_doesNameExist(tab, key) == SNOOPY_TRUE) == (want >= 0), "registry lookup: doesNameExist agrees with the lookup");
  if (want >= 0) __CPROVER_assert(eq(snoopy_genericregistry_getName(tab, id), key), "registry lookup: the id maps back to the same name");
  VERIF_CANARY();
}
