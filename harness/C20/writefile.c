/* C20 — real etcLdSoPreload_writeFile (src/cli/cli-subroutines.c) against the file-system model.
 * Obligation at every model call (= every system-call boundary, with every write-type call also failing):
 * the target file is the complete old or complete new content; on normal return it is the new content. */
#include "verif_harness.h"
#include "snoopy.h"
#include "cli/cli-subroutines.h"
extern int verif_disk, verif_exit_status, verif_open_files; void verif_cli_init(const char *);
char *getenv(const char *n){ (void)n; return 0; }              /* production path; the SNOOPY_TEST_* overrides are test-only */
void harness(void){
  verif_ghost_init();
  char content[9]; for (int i = 0; i < 8; i++) content[i] = nondet_char(); content[8] = 0;
  verif_cli_init(content);
  etcLdSoPreload_writeFile(content);
  __CPROVER_assert(verif_disk == 3, "writeFile: on normal return the file holds the complete new content");
  __CPROVER_assert(verif_open_files == 0, "writeFile: no stream left open");
  VERIF_CANARY();
}
