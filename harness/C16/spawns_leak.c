/* C16 (size level; bounded in the number of list items, <= 2) — real snoopy_filter_exclude_spawns_of: whatever the argument
 * (any length, empty included) and with no readable ancestors, every allocation made by the filter is released before it returns. */
#include "verif_harness.h"
#include "snoopy.h"
#include "filter/exclude_spawns_of.h"
pid_t getppid(void){ return 0; }                 /* no ancestors to walk: the /proc walk itself is covered by C15 */
static int seps;
char *strchr(const char *s, int c){ size_t l = strlen(s); if ((char)c == 0) return (char *)s + l; if (l == 0 || seps >= 1 || nondet_bool()) return 0; seps++; size_t k = nondet_size_t(); __CPROVER_assume(k < l); return (char *)s + k; }
void harness(void){
  verif_ghost_init(); seps = 0;
  char *arg = verif_mk_string(1023);
  int r = snoopy_filter_exclude_spawns_of(arg);
  __CPROVER_assert(r == SNOOPY_FILTER_PASS, "exclude_spawns_of: passes when there is no ancestor to match");
  free(arg);
  VERIF_CANARY();
}
