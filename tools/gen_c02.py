#!/usr/bin/env python3
"""emit the run list of C02 (and, with --c12, nothing else yet) from the CURRENT working tree: one contract run per data source found
in src/datasource/*.c (function names are read from the files), plus the fixed runs listed in obligations/C02.json."""
import json, os, re, glob, sys
V = os.path.dirname(os.path.dirname(os.path.abspath(__file__)))
repo = os.environ.get("VERIF_REPO", "/repo")
COMMON = ["harness/C02/datasource.c", "world/packE_ds.c", "world/packS.c", "world/ghost.c"]
# per data source: extra real sources, extra defines, loop contract, bound
SPECIAL = {
 "filename": {"defines": ["H_INPUTDATA"]},
 # the two vector walkers: a DFCC loop-contract proof (loops/cmdline.json, loops/env_all.json) and even the DFCC-instrumented unwound
 # runs exhaust cbmc's memory (symbolic-size object havoc at symbolic offsets); they get plain bounded runs (fixed part of obligations/C02.json)
 "cmdline": {"skip": "see C02.ds.cmdline.sizes (bounded in the number of arguments)"},
 "env_all": {"skip": "see C02.ds.env_all.sizes (bounded in the number of variables)"},
 "username": {"sources": ["src/util/pwd.c"], "replay": "c12_narrowing"},
 "timestamp": {"replay": "c12_narrowing"},
 "tty_uid": {"sources": ["src/datasource/tty__common.c"]},
 "tty_username": {"sources": ["src/datasource/tty__common.c", "src/util/pwd.c"], "replay": "c12_narrowing"},
 "ipaddr": {"sources": ["src/util/utmp.c"]},
 "snoopy_threads": {"defines": ["H_TSRM_STUB"]},
 # readers of /etc/hosts and procfs (loops over file content, strtok_r/strcasestr on 1-10 KiB buffers): DFCC-instrumented bounded runs
 # (<= 2 lines, <= 2 ancestors) did not finish within 900 s each; NOT under a run - listed in the evidence as uncovered functions
 "domain": {"skip": "parked: bounded DFCC run > 900 s"},
 "cgroup": {"skip": "parked: bounded DFCC run > 900 s"},
 "rpname": {"skip": "parked: bounded DFCC run > 900 s"},
 "systemd_unit_name": {"skip": "parked: calls cgroup"},
}
runs = []
files = sorted(glob.glob(os.path.join(repo, "src/datasource/*.c")))
for f in files:
    txt = open(f).read()
    for m in re.finditer(r"^\s*(?:__attribute__\(\(visibility\(\"default\"\)\)\)\s*)?int\s+snoopy_datasource_(\w+)\s*\(\s*(?:__attribute__\(\(unused\)\)\s*)?char \* const resultBuf", txt, re.M):
        name = m.group(1); sp = SPECIAL.get(name, {})
        if sp.get("skip"): continue
        rel = os.path.relpath(f, repo)
        fn = "snoopy_datasource_" + name
        r = {"id": "C02.ds." + name, "kind": "B" if sp.get("bound") else "U", "sources": [rel] + sp.get("sources", []), "verif_sources": COMMON,
             "includes": ["include/verif_ds.h", "contracts/datasource.h"], "defines": ["VERIF_TAGS", "VERIF_DS_FN=" + fn] + sp.get("defines", []),
             "dfcc": {"enforce": fn}, "cbmc": ["--unwind", str(sp.get("unwind", 64))], "functions": [fn], "timeout": 900,
             "must_fire": ["Check ensures clause", "is assignable"] + sp.get("must_fire", []),
             "what": "real %s enforced against the data-source contract (contracts/datasource.h): every buffer size 256..1048577, every argument, every OS answer or failure: writes only its buffer, stays inside it, result NUL-terminated, nothing left open" % fn}
        if sp.get("bound"): r["bound"] = sp["bound"]
        if sp.get("plain"):
            del r["dfcc"]; r["includes"] = ["include/verif_ds.h"]; r["must_fire"] = ["NUL-terminated inside the buffer"] + sp.get("must_fire", [])
            r["what"] = r["what"].replace("enforced against the data-source contract (contracts/datasource.h)", "against the data-source contract stated by the harness (no DFCC frame instrumentation)")
        if sp.get("loops"): r["dfcc"]["loops"] = sp["loops"]
        if sp.get("tier"): r["tier"] = sp["tier"]
        if sp.get("replay"): r["replay"] = sp["replay"]
        runs.append(r)
if "--only" in sys.argv:          # another property reusing some of these contract runs under its own ids
    keep = set(sys.argv[sys.argv.index("--only") + 1].split(",")); pref = sys.argv[sys.argv.index("--prefix") + 1]
    runs = [r for r in runs if r["id"].split(".")[-1] in keep]
    for r in runs: r["id"] = r["id"].replace("C02.", pref + ".via.C02.", 1); r["what"] = "(run shared with C02) " + r["what"]
print(json.dumps(runs))
