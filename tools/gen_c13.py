#!/usr/bin/env python3
"""emit the run list for C13 from the registry tables of the CURRENT working tree (names are read with the lifter's own parser)"""
import json, os, re, subprocess, sys, tempfile
V = os.path.dirname(os.path.dirname(os.path.abspath(__file__)))
repo = os.environ.get("VERIF_REPO", "/repo")
runs = []
with tempfile.TemporaryDirectory(prefix="verif_genc13_") as t:
    for kind in ("datasource", "filter", "output"):
        p = subprocess.run([os.path.join(V, "tools/lift_registry.py"), kind, t, "--repo", repo], stdout=subprocess.PIPE, stderr=subprocess.STDOUT)
        if p.returncode:
            # drift: fall back to the real preprocessed tables of the current configuration only (bounded in configurations)
            runs.append({"id": "C13.%s.lift" % kind, "kind": "U", "what": "lifting", "generate": ["tools/lift_registry.py", kind, "{tmp}"], "gen_sources": ["lifted_%s.c" % kind], "sources": ["src/genericregistry.c"], "defines": ["H_ALIGN"], "functions": []})
            continue
        meta = json.load(open(os.path.join(t, "lifted_%s.json" % kind)))
        base = {"kind": "U", "generate": ["tools/lift_registry.py", kind, "{tmp}"], "gen_sources": ["lifted_%s.c" % kind], "sources": ["src/genericregistry.c"],
                "verif_sources": [], "cbmc": ["--unwind", str(max(len(meta["names"]), max(len(x) for x in meta["names"])) + 20)], "timeout": 900}
        r = dict(base); r.update({"id": "C13.%s.align" % kind, "defines": ["H_ALIGN"], "timeout": 300,
                  "what": "lifted %s tables, ALL 2^%d build configurations at once: at every index the name is bound to its own implementation; one sentinel more names than pointers" % (kind, len(meta["guards"])),
                  "replay": "c13_config", "functions": [], "must_fire": ["the name at every index is bound to its own implementation", "exactly one more entry"]})
        runs.append(r)
        reg = "snoopy_%sregistry" % kind
        for n in meta["names"] + ["__unknown__"]:
            r = dict(base)
            heavy = (kind == "datasource")
            r.update({"id": "C13.%s.lookup.%s" % (kind, n), "defines": ["H_UNKNOWN" if n == "__unknown__" else "H_NAME_" + n],
                      "what": "real %s_callByName + real genericregistry on the lifted tables, all build configurations: '%s' runs its own implementation when switched on, nothing when off" % (reg, n),
                      "replay": "c13_config", "functions": [reg + "_callByName", reg + "_getIdFromName", "snoopy_genericregistry_getIdFromName"], "must_fire": ["registry lookup \\(every build configuration\\)"]})
            if heavy: r["tier"] = "thorough"
            runs.append(r)
print(json.dumps(runs))
