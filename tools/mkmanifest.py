#!/usr/bin/env python3
"""regenerate MANIFEST.json from tools/manifest_src.json (single place to edit) and validate it"""
import json, os, sys
V = os.path.dirname(os.path.dirname(os.path.abspath(__file__)))
src = json.load(open(os.path.join(V, "tools/manifest_src.json")))
props = [json.loads(l)["id"] for l in open(os.path.join(V, "properties.jsonl"))]
checks = []
for pid in props:
    c = src["checks"].get(pid)
    if not c: continue
    checks.append({"property_id": pid, "quick_cmd": "./check %s --tier quick" % pid, "thorough_cmd": "./check %s --tier thorough" % pid,
                   "evidence_file": "/verif/evidence/%s.json" % pid, "replay_cmd_template": "cat {path}", "engine": "cbmc-contracts",
                   "level_claimed": {"category": c["category"], "text": c["text"], "design_ref": c.get("design_ref", "DESIGN.md section 4 " + pid)},
                   "level_note": c["note"], "technique": c["technique"]})
na = [{"property_id": p, "reason": src["not_applicable"].get(p, "no check built yet in this round (see DESIGN.md)")} for p in props if p not in src["checks"]]
m = {"version": 1, "setup_cmd": src["setup_cmd"], "hooks": src["hooks"], "engines": src["engines"], "checks": checks, "notes": src["notes"], "not_applicable": na}
json.dump(m, open(os.path.join(V, "MANIFEST.json"), "w"), indent=1)
try:
    import jsonschema
    jsonschema.validate(m, json.load(open("/root/.vp/MANIFEST.schema.json")))
    print("MANIFEST.json valid: %d checks, %d not_applicable" % (len(checks), len(na)))
except ImportError:
    print("jsonschema not importable here; written without validation")
