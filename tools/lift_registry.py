#!/usr/bin/env python3
"""C13 — mechanical lifting of the three registry source files, run on every check from /repo's working tree.

lift_registry.py <datasource|filter|output> <outdir> [--repo DIR]

Each #ifdef-guarded initialiser entry of the two tables becomes `if (en_G1 && en_G2) arr[n++] = entry;` with one
nondeterministic boolean per #ifdef symbol; every implementation is replaced by a stub that records its identity; ALL
functions of the registry file are kept verbatim (text after the second table).  What the extraction drops: the guarded
`#include "<kind>/*.h"` lines (prototypes of the stubs are generated instead) and the two array initialisers (replaced by
the lifted construction).  Must-fire rules (else exit 3 with DRIFT): both arrays found; every entry on its own line inside
balanced guards; trailing sentinel "" in the names table; exactly one more name than pointer.
The lifting is cross-checked against the C preprocessor (gcc -E on the real file) for the current configuration, for
all-off, for thread-safety-off and for N random configurations (seed VERIF_SEED): the sequence of entries must agree.
Output: <outdir>/lifted_<kind>.c and <outdir>/lifted_<kind>.json (names, guards, expected bindings).
"""
import json, os, random, re, subprocess, sys, tempfile

KINDS = {
    "datasource": ("src/datasourceregistry.c", "snoopy_datasourceregistry", "snoopy_datasource_%s", "(char * const resultBuf, size_t resultBufSize, char const * const arg)", "char * const b, size_t n, char const * const a"),
    "filter": ("src/filterregistry.c", "snoopy_filterregistry", "snoopy_filter_%s", "(char const * const arg)", "char const * const a"),
    "output": ("src/outputregistry.c", "snoopy_outputregistry", "snoopy_output_%soutput", "(char const * const logMessage, char const * const arg)", "char const * const m, char const * const a"),
}


def drift(msg):
    print("DRIFT: " + msg); sys.exit(3)


def lift(body):
    out, stack = [], []
    for line in body.split("\n"):
        s = line.strip()
        if s.startswith("#ifdef"): stack.append(s.split()[1]); continue
        if s.startswith("#if defined"): drift("guard form not understood: " + s)
        if s.startswith("#ifndef") or s.startswith("#else") or s.startswith("#elif"): drift("guard form not understood: " + s)
        if s.startswith("#endif"):
            if not stack: drift("unbalanced #endif")
            stack.pop(); continue
        if not s or s.startswith("/*") or s.startswith("//") or s.startswith("*"): continue
        if s.count(",") > 1 or not s.endswith(","): drift("entry not on its own line: " + s)
        out.append((tuple(stack), s.rstrip(",").strip()))
    if stack: drift("unbalanced guards")
    return out


def main():
    kind = sys.argv[1]; outdir = sys.argv[2]
    repo = sys.argv[sys.argv.index("--repo") + 1] if "--repo" in sys.argv else os.environ.get("VERIF_REPO", "/repo")
    path, prefix, conv, proto, stubargs = KINDS[kind]
    src = open(os.path.join(repo, path)).read()
    m1 = re.search(r"char\s*\*\s*%s_names\s*\[\]\s*=\s*\{(.*?)\n\};" % prefix, src, re.S)
    m2 = re.search(r"int \(\*%s_ptrs \[\]\)\s*\([^)]*\)\s*=\s*\{(.*?)\n\};" % prefix, src, re.S)
    if not m1 or not m2: drift("table definitions not found in " + path)
    names = lift(m1.group(1)); ptrs = lift(m2.group(1))
    if not names or names[-1][1] != '""' or names[-1][0]: drift("names table does not end with an unguarded sentinel \"\"")
    if len(names) != len(ptrs) + 1: drift("names table must have exactly one more entry (the sentinel) than the pointer table: %d vs %d" % (len(names), len(ptrs)))
    for gs, e in names:
        if not re.fullmatch(r'"[A-Za-z0-9_]*"', e): drift("name entry is not a plain string literal: " + e)
    for gs, e in ptrs:
        if not re.fullmatch(r"[A-Za-z_][A-Za-z0-9_]*", e): drift("pointer entry is not a plain identifier: " + e)
    lits = [e.strip('"') for _, e in names[:-1]]
    if len(set(lits)) != len(lits): drift("duplicate name in the names table: " + str(sorted(x for x in lits if lits.count(x) > 1)))
    guards = sorted({g for gs, _ in names + ptrs for g in gs})
    fns = []
    for _, e in ptrs:
        if e not in fns: fns.append(e)
    # expected binding by the project's naming convention (independent of table order): name X <-> function conv % X
    expect = {n: conv % n for n in lits}
    # tags: name tag = index in lits; function tag = index of the name it implements by convention, else 1000+k
    ftag = {}
    for k, f in enumerate(fns):
        owners = [i for i, n in enumerate(lits) if expect[n] == f]
        ftag[f] = owners[0] if owners else 1000 + k
    cond = lambda gs: " && ".join("en_" + g for g in gs) or "1"
    tail = src[m2.end():]                                   # every function of the file, verbatim
    head_includes = [l for l in src[:m1.start()].split("\n") if l.startswith("#include") and "/" not in l.split('"')[1 if '"' in l else 0] and '"' in l and not l.split('"')[1].startswith(kind)]
    o = []
    o.append("/* GENERATED by tools/lift_registry.py from %s on every run — do not edit */" % path)
    o.append('#include "snoopy.h"\n#include "configuration.h"\n#include "genericregistry.h"\n#include "%s.h"\n#include <string.h>\n#include <stddef.h>' % path.split("/")[-1][:-2])
    o.append("_Bool nondet_bool(void); int nondet_int(void);")
    o.append("int verif_called, verif_ncalls;   /* ghost: tag of the implementation that ran */")
    for g in guards: o.append("_Bool en_%s;" % g)
    for f in fns: o.append("int %s(%s){ verif_called = %d; verif_ncalls++; return 7; }" % (f, stubargs, ftag[f]))
    o.append("char *%s_names[%d];" % (prefix, len(names)))
    o.append("int (*%s_ptrs[%d]) %s;" % (prefix, len(ptrs) + 1, proto))
    o.append("int verif_name_tag[%d], verif_ptr_tag[%d], verif_n_names, verif_n_ptrs;" % (len(names), len(ptrs) + 1))
    o.append("void verif_build(void){ int n = 0;")
    for g in guards: o.append("  en_%s = nondet_bool();" % g)
    for gs, e in names:
        tag = lits.index(e.strip('"')) if e != '""' else -1
        o.append("  if (%s) { %s_names[n] = %s; verif_name_tag[n] = %d; n++; }" % (cond(gs), prefix, e, tag))
    o.append("  verif_n_names = n; n = 0;")
    for gs, e in ptrs:
        o.append("  if (%s) { %s_ptrs[n] = %s; verif_ptr_tag[n] = %d; n++; }" % (cond(gs), prefix, e, ftag[e]))
    o.append("  verif_n_ptrs = n; }")
    o.append("/* ---- verbatim from %s (everything after the two tables) ---- */" % path)
    o.append(tail)
    o.append("/* ---- harnesses ---- */")
    o.append("#ifdef H_ALIGN")
    o.append("void harness(void){ verif_build(); int i = nondet_int();")
    o.append('  __CPROVER_assert(verif_n_names == verif_n_ptrs + 1, "registry (every build configuration): names table has exactly one more entry (the sentinel) than the pointer table");')
    o.append('  __CPROVER_assert(verif_name_tag[verif_n_names - 1] == -1, "registry (every build configuration): the names table ends with the sentinel");')
    o.append('  if (i >= 0 && i < verif_n_ptrs) __CPROVER_assert(verif_name_tag[i] == verif_ptr_tag[i] && verif_name_tag[i] >= 0, "registry (every build configuration): the name at every index is bound to its own implementation");')
    o.append('  __CPROVER_assert(0, "canary: end of harness reachable"); }')
    o.append("#endif")
    for idx, n in enumerate(lits):
        gs = names[idx][0]
        o.append("#ifdef H_NAME_%s" % n)
        call = {"datasource": '%s_callByName("%s", buf, 4, "")' % (prefix, n), "filter": '%s_callByName("%s", "")' % (prefix, n), "output": '%s_callByName("%s", "m", "")' % (prefix, n)}[kind]
        o.append("void harness(void){ verif_build(); char buf[4]; verif_called = -5; verif_ncalls = 0; int r = %s;" % call)
        o.append('  if (%s) __CPROVER_assert(verif_ncalls == 1 && verif_called == %d && r == 7, "registry lookup (every build configuration): available name \'%s\' runs its own implementation, once");' % (cond(gs), idx, n))
        o.append('  else __CPROVER_assert(verif_ncalls == 0 && r == -1, "registry lookup (every build configuration): switched-off name \'%s\' is simply unknown");' % n)
        o.append('  __CPROVER_assert(0, "canary: end of harness reachable"); }')
        o.append("#endif")
    o.append("#ifdef H_UNKNOWN")
    call = {"datasource": '%s_callByName("no_such_name", buf, 4, "")' % prefix, "filter": '%s_callByName("no_such_name", "")' % prefix, "output": '%s_callByName("no_such_name", "m", "")' % prefix}[kind]
    o.append("void harness(void){ verif_build(); char buf[4]; verif_ncalls = 0; int r = %s;" % call)
    o.append('  __CPROVER_assert(verif_ncalls == 0 && r == -1, "registry lookup (every build configuration): an unknown name runs nothing"); __CPROVER_assert(0, "canary: end of harness reachable"); }')
    o.append("#endif")
    os.makedirs(outdir, exist_ok=True)
    open(os.path.join(outdir, "lifted_%s.c" % kind), "w").write("\n".join(o) + "\n")

    # ---- cross-check the lifting against the real preprocessor -----------------------------------------------------
    def evaluate(defs):
        ev = lambda tab: [e for gs, e in tab if all(g in defs for g in gs)]
        return ev(names), ev(ptrs)
    def real_tables(defs):
        with tempfile.TemporaryDirectory(prefix="verif_lift_") as t:
            open(os.path.join(t, "config.h"), "w").write("".join("#define %s 1\n" % d for d in sorted(defs)) +
                '#define SNOOPY_CONF_MESSAGE_FORMAT ""\n#define SNOOPY_CONF_FILTER_CHAIN ""\n#define SNOOPY_CONF_SYSLOG_FACILITY 0\n#define SNOOPY_CONF_SYSLOG_LEVEL 0\n#define SNOOPY_CONF_SYSLOG_IDENT_FORMAT ""\n#define PACKAGE_VERSION "x"\n#define SNOOPY_CONF_LIBDIR ""\n#define SNOOPY_CONF_CONFIGFILE_PATH ""\n')
            p = subprocess.run(["gcc", "-E", "-P", "-DHAVE_CONFIG_H", "-I" + t, "-I" + repo + "/src", "-I" + repo, os.path.join(repo, path)], stdout=subprocess.PIPE, stderr=subprocess.PIPE)
            if p.returncode: return None
            txt = p.stdout.decode()
            a = re.search(r"%s_names\s*\[\]\s*=\s*\{(.*?)\};" % prefix, txt, re.S); b = re.search(r"%s_ptrs\s*\[\]\)\s*\([^)]*\)\s*=\s*\{(.*?)\};" % prefix, txt, re.S)
            split = lambda s: [x.strip() for x in s.replace("\n", " ").split(",") if x.strip()]
            return split(a.group(1)), split(b.group(1))
    cur = set(re.findall(r"^#define (SNOOPY_CONF_\w+) ", open(os.path.join(repo, "config.h")).read(), re.M)) if os.path.exists(os.path.join(repo, "config.h")) else set(guards)
    rnd = random.Random(int(os.environ.get("VERIF_SEED", "0") or 0))
    nrand = 20 if os.environ.get("VERIF_TIER") == "thorough" else 4
    configs = [("current", cur & set(guards) | {g for g in cur if g.startswith("SNOOPY_CONF_THREAD")}), ("all-off", set()), ("all-on", set(guards)), ("thread-safety-off", set(guards) - {"SNOOPY_CONF_THREAD_SAFETY_ENABLED"})]
    if os.environ.get("VERIF_TIER") == "thorough": configs += [("only-%s-off" % g, set(guards) - {g}) for g in guards]
    configs += [("random-%d" % k, {g for g in guards if rnd.random() < 0.5}) for k in range(nrand)]
    checked = 0
    for label, defs in configs:
        rt = real_tables(defs)
        if rt is None: drift("gcc -E failed on %s for configuration %s" % (path, label))
        if (list(rt[0]), list(rt[1])) != tuple(map(list, evaluate(defs))): drift("lifting disagrees with the preprocessor for configuration '%s'" % label)
        checked += 1
    json.dump({"kind": kind, "names": lits, "guards": guards, "functions": fns, "expected": expect, "crosschecked_configurations": checked,
               "name_guards": {n: list(names[i][0]) for i, n in enumerate(lits)}}, open(os.path.join(outdir, "lifted_%s.json" % kind), "w"), indent=1)
    print("lifted %s: %d names, %d guards, cross-checked against gcc -E in %d configurations" % (kind, len(lits), len(guards), checked))


if __name__ == "__main__":
    main()
