#!/bin/bash
# try_seed.sh <patch.diff> <check id>... — apply a seeded change to /repo, run the checks, undo it straight afterwards
P=$1; shift
cd /repo || exit 2
[ -z "$(git status --porcelain --untracked-files=no)" ] || { echo "/repo has uncommitted changes"; exit 2; }
git apply "$P" || git apply -3 "$P" || { echo "patch does not apply"; exit 2; }
trap 'git -C /repo checkout -- . ; git -C /repo reset -q' EXIT
for id in "$@"; do echo "== $id"; (cd /verif && ./check $id --no-evidence ${TIER:+--tier $TIER}); echo "exit=$?"; done
