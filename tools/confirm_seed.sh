#!/bin/bash
# confirm_seed.sh <ID> [srcdir]  — confirm a seeded change independently in a fresh scratch worktree of /repo HEAD:
#   demo passes without the change; with it: builds, suite passes, demo fails.  Then store it under /verif/seeded/<ID>/.
ID=$1; SRC=${2:-/tmp/wt/out/$ID}; NAME=${3:-$ID}
W=/tmp/wt/confirm-$NAME; rm -rf $W; /verif/tools/rmwt.sh $W 2>/dev/null
/verif/tools/mkwt.sh $W >/dev/null || exit 2
trap '/verif/tools/rmwt.sh '$W EXIT
bash $SRC/demo.sh $W >/tmp/wt/confirm-$NAME.base.log 2>&1; B=$?
(cd $W && (git apply $SRC/patch.diff || git apply -3 $SRC/patch.diff) && git reset -q) || { echo "PATCH DOES NOT APPLY to HEAD"; exit 2; }
(cd $W && make -j16 >/tmp/wt/confirm-$NAME.make.log 2>&1); M=$?
/verif/tools/runtests.sh $W >/tmp/wt/confirm-$NAME.tests.log 2>&1; T=$?
bash $SRC/demo.sh $W >/tmp/wt/confirm-$NAME.mut.log 2>&1; D=$?
echo "$NAME: demo-without=$B build=$M tests=$T ($(head -1 /tmp/wt/confirm-$NAME.tests.log)) demo-with=$D"
if [ $B -eq 0 ] && [ $M -eq 0 ] && [ $T -eq 0 ] && [ $D -ne 0 ]; then
  mkdir -p /verif/seeded/$NAME && cp -r $SRC/* /verif/seeded/$NAME/ && (cd $W && git diff) > /verif/seeded/$NAME/patch.diff
  echo "CONFIRMED $NAME"
else echo "NOT CONFIRMED $NAME"; fi
