#!/bin/bash
exec python3 "$(dirname "$0")/gen_c15_cases.py" --list
