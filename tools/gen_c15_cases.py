#!/usr/bin/env python3
"""cases for C15: (ancestor chain of depth 1..3, list argument, level at which /proc becomes unreadable or -1).  gen_c15_cases.py <outdir> <chunk>"""
import sys, itertools
NAMES = ["sh", "cron", "crond", "a b", "(x)", "x)y", "abcdefghijklmno"]
LISTS = ["cron", "crond,sh", "", "a b", ",cron,", "sh,sh", "x)y,(x)", "abcdefghijklmno,abcdefghijklmn", "cro", "zz,crond"]
out, chunk = sys.argv[1], int(sys.argv[2]) if len(sys.argv) > 2 else -1
chains = [(a,) for a in NAMES] + list(itertools.product(NAMES, repeat=2)) + [("sh", "cron", "crond"), ("a b", "(x)", "x)y"), ("crond", "sh", "abcdefghijklmno"), ("sh", "sh", "cron")]
cases = []
for ch in chains:
    for l in LISTS:
        cases.append((ch, l, -1))
for ch in chains[:20]:
    for lvl in range(len(ch)):
        cases.append((ch, "cron,sh", lvl))
# appended (indices of the earlier cases stay stable): names with a newline byte (prctl(PR_SET_NAME) allows it; the kernel does not escape it in /proc/<pid>/stat)
NL_CASES = [(("we\nird", "cron"), "cron", -1), (("nl\n", "sh", "cron"), "x,cron", -1), (("a\nb",), "a\nb", -1)]
cases += NL_CASES
if out == "--list":
    # run list for the runner: one run per case (a symbolic choice between concrete cases merges their states and does not finish, probed)
    import json
    runs = []
    for i, (ch, l, lvl) in enumerate(cases):
        quick = (len(ch) == 1 and ch[0] in ("cron", "x)y")) or (ch == ("sh", "cron") and l in ("cron", "crond,sh")) or (lvl >= 0 and ch == ("cron",)) or (lvl == 1 and ch == ("sh", "cron")) or (ch, l, lvl) in NL_CASES[:1]
        r = {"id": "C15.spawns.case%03d" % i, "kind": "B", "bound": "ancestors (parent first) %s, list %r%s" % (list(ch), l, "" if lvl < 0 else ", /proc unreadable from level %d on" % lvl),
             "what": "real snoopy_filter_exclude_spawns_of vs ancestor-name membership reference with a /proc model", "generate": ["tools/gen_c15_cases.py", "{tmp}", str(i)],
             "sources": ["src/filter/exclude_spawns_of.c"], "verif_sources": ["harness/C15/spawns.c", "world/packC.c", "world/ghost.c"], "defines": ["VERIF_MALLOC_CHOICE"], "cbmc": ["--unwind", "90"], "no_conversion_check": True,
             "functions": ["snoopy_filter_exclude_spawns_of", "find_ancestor_in_list", "find_string_in_array", "string_to_token_array"], "replay": "native_harness", "must_fire": ["drops exactly when an ancestor"], "timeout": 900}
        if not quick: r["tier"] = "thorough"
        runs.append(r)
    print(json.dumps(runs)); sys.exit(0)
sel = [cases[chunk]]
def cs(s): return '"' + s.replace("\\", "\\\\").replace('"', '\\"').replace("\n", "\\n") + '"'
lines = ["/* GENERATED: %d of %d cases (chunk %d) */" % (len(sel), len(cases), chunk), "#define NCASES %d" % len(sel), "#define CASES(X) \\"]
lines.append(" \\\n".join("  X(%d, %d, %s, %s, %s, %s, %d)" % (i, len(ch), cs(ch[0]), cs(ch[1]) if len(ch) > 1 else '""', cs(ch[2]) if len(ch) > 2 else '""', cs(l), lvl) for i, (ch, l, lvl) in enumerate(sel)))
open(out + "/c15_cases.h", "w").write("\n".join(lines) + "\n")
print("case %d of %d" % (chunk, len(cases)))
