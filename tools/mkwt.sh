#!/bin/bash
# mkwt.sh <dir> [commit]  — create a configured+built scratch git worktree of /repo at <dir> (outside /repo and /verif)
set -eu
D=$1; C=${2:-HEAD}
case "$D" in /repo*|/verif*) echo "refusing: scratch must be outside /repo and /verif" >&2; exit 2;; esac
git -C /repo worktree add -f --detach "$D" "$C" >/dev/null 2>&1
cd "$D"
# generated autotools files are gitignored: copy them from /repo (never objects or Makefiles), then configure here
rsync -a --ignore-existing --exclude .git --exclude '*.o' --exclude '*.lo' --exclude '*.la' --exclude '.libs' --exclude '.deps' \
  --exclude Makefile --exclude config.status --exclude config.log --exclude config.h --exclude libtool --exclude stamp-h1 \
  --exclude '*.out' --exclude '*.log' --exclude '*.trs' --exclude 'snoopyctl' --exclude 'snoopy-test' /repo/ .
./configure 'CFLAGS= -Wno-error' >/dev/null 2>&1
make -j16 >/dev/null 2>&1
echo "built $D"
