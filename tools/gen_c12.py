#!/usr/bin/env python3
"""run list of C12: one loop-free run per identity/environment data source with a written postcondition (harness/C12/truth.c)"""
import json, os
repo = os.environ.get("VERIF_REPO", "/repo")
COMMON = ["harness/C12/truth.c", "world/packE_ds.c", "world/packS.c", "world/ghost.c"]
DS = {"uid": {}, "euid": {}, "gid": {}, "egid": {}, "pid": {}, "ppid": {}, "sid": {}, "tid": {}, "tid_kernel": {}, "timestamp": {}, "timestamp_ms": {}, "timestamp_us": {},
      "snoopy_threads": {"defines": ["H_TSRM_STUB"]}, "username": {"sources": ["src/util/pwd.c"]}, "eusername": {}, "group": {}, "egroup": {}, "cwd": {}, "hostname": {},
      "tty": {}, "tty_uid": {"sources": ["src/datasource/tty__common.c"]}, "tty_username": {"sources": ["src/datasource/tty__common.c", "src/util/pwd.c"]},
      "login": {}, "env": {}, "datetime": {}, "filename": {"defines": ["H_INPUTDATA"]}, "snoopy_literal": {}}
runs = []
for name, sp in DS.items():
    f = "src/datasource/%s.c" % name
    if not os.path.exists(os.path.join(repo, f)): continue
    fn = "snoopy_datasource_" + name
    runs.append({"id": "C12.truth." + name, "kind": "U", "sources": [f] + sp.get("sources", []), "verif_sources": COMMON, "includes": ["include/verif_ds.h"],
                 "defines": ["VERIF_TAGS", "VERIF_DS_FN=" + fn, "DS_" + name] + sp.get("defines", []), "cbmc": ["--unwind", "64"], "functions": [fn], "timeout": 900,
                 "replay": "c12_narrowing" if name in ("timestamp", "username", "tty_username") else None,
                 "what": "real %s: asks the documented system interface and reports its answer unaltered, for every answer (distinct symbolic identities, tagged strings), every buffer size" % fn})
    if runs[-1]["replay"] is None: del runs[-1]["replay"]
print(json.dumps(runs))
