#!/bin/bash
# rmwt.sh <dir> — remove a scratch worktree with its build output
git -C /repo worktree remove --force "$1" 2>/dev/null || rm -rf "$1"
git -C /repo worktree prune
