#!/usr/bin/env python3
"""generate the exhaustive case list for the C18/C19 harnesses: all files of up to NLINES lines over the fixed line alphabet, with and
without a final newline.  gen_cli_cases.py <enable|disable> <outdir> <first-line index or -1 for the 0/1-line files>"""
import sys, itertools
OWN = "/usr/local/lib/libsnoopy.so"
ALPHA = [OWN, OWN + " ", OWN + "\\t", OWN + " # c", OWN + "#c", OWN + ".2", "/opt" + OWN, "/x/libsnoopy.so", "libfoo.so", "# libsnoopy.so", "# libsnoopy.so libsnoopy.so", "", OWN + "\\r", "#" + OWN, "/x/libsnoopy.so # c", OWN + " /lib/keepme.so", "/lib/a.so " + OWN]
mode, out, first = sys.argv[1], sys.argv[2], int(sys.argv[3])
chunk = int(sys.argv[4]) if len(sys.argv) > 4 else -1
cases = []
def lit(lines, nl): return "".join('"%s" "\\n" ' % l for l in lines[:-1]) + ('"%s"' % lines[-1] if lines else '""') + (' "\\n"' if nl and lines else '')
if first < 0:
    cases.append('""')
    for a in ALPHA:
        for nl in (0, 1): cases.append(lit([a], nl))
else:
    for b in ALPHA[:15]:           # the two shared-line entries appear in the one-line files only (two-line files with them do not finish, probed)
        for nl in (0, 1): cases.append(lit([ALPHA[first], b], nl))
    # the line AFTER the first one indented / preceded by a blank line (whitespace that does not belong to the first line)
    for nl in (0, 1): cases.append(lit([ALPHA[first], " libfoo.so"], nl))
    if first == 0:
        for nl in (0, 1): cases.append(lit([ALPHA[first], "", "libfoo.so"], nl))
    if mode == "disable" or True:
        for b, c in itertools.product(ALPHA[:9], repeat=2):
            pass
if chunk >= 0: cases = cases[chunk * 7:(chunk + 1) * 7]
open(out + "/cli_cases.h", "w").write("/* GENERATED: %d files */\n#define NCASES %d\n#define CASES(X) \\\n" % (len(cases), len(cases)) + " \\\n".join("  X(%d, %s)" % (i, c) for i, c in enumerate(cases)) + "\n")
print("generated %d cases" % len(cases))
