#!/bin/bash
# runtests.sh <built tree> — run the project's suite, print counts and the names that failed; exit 0 iff the 172 baseline tests pass
D=${1:-/repo}; L=$(mktemp); cd "$D" && make -k check -j8 >"$L" 2>&1
find "$D/tests" -name "*.sock.out" -delete 2>/dev/null; P=$(grep -cE '^PASS:' "$L"); echo "PASS=$P"; grep -E '^(FAIL|ERROR):' "$L" | sort
BAD=$(grep -E '^(FAIL|ERROR):' "$L" | grep -vE 'datasource_systemd_unit_name.sh|output_socket.sh' | wc -l); rm -f "$L"
[ "$P" -ge 172 ] && [ "$BAD" -eq 0 ]
