#!/bin/bash
# seed_matrix.sh [-c "<check ids>"] <seed id>...  — run checks against seeded changes WITHOUT touching /repo:
#   each seed gets a plain scratch worktree of /repo HEAD under /tmp/wt (config.h copied, no build), the patch is applied there,
#   the checks run with VERIF_REPO pointing at it, the worktree is removed.  Prints one line per (seed, check).
#   Default checks for seed <ID>[-suffix] = property <ID>.   TIER=thorough for the thorough tier.
CHECKS=""
if [ "$1" = "-c" ]; then CHECKS=$2; shift 2; fi
mkdir -p /tmp/wt
for S in "$@"; do
  D=/verif/seeded/$S; P=$D/patch_on_fixed_tree.diff; [ -f $P ] || P=$D/patch.diff
  W=/tmp/wt/sm-$S-$$
  git -C /repo worktree add -f --detach $W HEAD >/dev/null 2>&1 || { echo "$S: cannot create worktree"; continue; }
  cp /repo/config.h $W/config.h
  if (cd $W && (git apply $P 2>/dev/null || git apply -3 $P 2>/dev/null)); then
    for C in ${CHECKS:-${S%%-*}}; do
      [ -f /verif/obligations/$C.json ] || { echo "$S x $C: no check"; continue; }
      L=/tmp/wt/sm-$S-$C.log
      (cd /verif && VERIF_REPO=$W ./check $C --no-evidence ${TIER:+--tier $TIER} >$L 2>&1); RC=$?
      V=$(grep -c '^VIOLATION' $L); T=$(grep -c '^TOOL-ERROR' $L)
      echo "$S x $C: exit=$RC violations=$V tool-errors=$T  $(grep -m1 -A1 '^VIOLATION' $L | tail -1 | cut -c1-220)"
    done
  else echo "$S: PATCH DOES NOT APPLY"; fi
  git -C /repo worktree remove --force $W >/dev/null 2>&1; rm -rf $W
done
